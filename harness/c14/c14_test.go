// C14 — keytab files round-trip and key lookup returns only a matching key.
package c14

import (
	"bytes"
	"encoding/binary"
	"encoding/hex"
	"encoding/json"
	"fmt"
	"os"
	"path/filepath"
	"reflect"
	"strconv"
	"strings"
	"sync"
	"testing"
	"time"
	"unicode/utf8"

	"github.com/jcmturner/gokrb5/v8/keytab"
	"github.com/jcmturner/gokrb5/v8/test/testdata"
	"github.com/jcmturner/gokrb5/v8/types"
	"pgregory.net/rapid"

	"verif/harness/evid"
	"verif/harness/kgen"
	ktf "verif/harness/ref/keytabfmt"
	ref "verif/harness/ref/krbcrypto"
)

// ---------------------------------------------------------------------------------------------
// Case model

// BS is an octet string (realm or name component). In JSON it is the string itself when that is
// printable UTF-8, "rep:<n>:<hex unit>" for n bytes of a repeated unit, otherwise "hex:<hex>".
type BS string

func plain(s string) bool {
	if !utf8.ValidString(s) || strings.HasPrefix(s, "hex:") || strings.HasPrefix(s, "rep:") {
		return false
	}
	for _, r := range s {
		if r < 0x20 || r == 0x7f || r == utf8.RuneError {
			return false
		}
	}
	return true
}

func (s BS) MarshalJSON() ([]byte, error) {
	v := string(s)
	if len(v) >= 128 {
		for k := 1; k <= 8; k++ {
			if strings.Repeat(v[:k], len(v)/k+1)[:len(v)] == v {
				return json.Marshal(fmt.Sprintf("rep:%d:%x", len(v), v[:k]))
			}
		}
	}
	if plain(v) {
		return json.Marshal(v)
	}
	return json.Marshal("hex:" + hex.EncodeToString([]byte(v)))
}

func (s *BS) UnmarshalJSON(b []byte) error {
	var v string
	if err := json.Unmarshal(b, &v); err != nil {
		return err
	}
	switch {
	case strings.HasPrefix(v, "hex:"):
		d, err := hex.DecodeString(v[4:])
		if err != nil {
			return err
		}
		*s = BS(d)
	case strings.HasPrefix(v, "rep:"):
		p := strings.SplitN(v[4:], ":", 2)
		if len(p) != 2 {
			return fmt.Errorf("bad rep string %q", v)
		}
		n, err := strconv.Atoi(p[0])
		u, err2 := hex.DecodeString(p[1])
		if err != nil || err2 != nil || len(u) == 0 || n < 0 || n > 0xFFFF {
			return fmt.Errorf("bad rep string %q", v)
		}
		*s = BS(strings.Repeat(string(u), n/len(u)+1)[:n])
	default:
		*s = BS(v)
	}
	return nil
}

func rep(unit string, n int) BS { return BS(strings.Repeat(unit, n/len(unit)+1)[:n]) }

// EntryM is one entry of a generated file together with its placement in the file.
type EntryM struct {
	Realm      BS      `json:"realm"`
	Comps      []BS    `json:"comps"`
	NameType   uint32  `json:"name_type,omitempty"` // written in version 2 only
	TS         uint32  `json:"ts"`
	KVNO8      uint8   `json:"vno8"`
	KV32       *uint32 `json:"vno32,omitempty"` // nil: the 32-bit key version field is absent
	EType      uint16  `json:"etype"`
	Key        string  `json:"key"`                   // hex
	Pad        string  `json:"pad,omitempty"`         // hex: bytes after the entry inside its record
	HoleBefore int     `json:"hole_before,omitempty"` // size of a hole preceding the record
}

// FileM is a generated keytab file.
type FileM struct {
	Version   int      `json:"version"`
	Entries   []EntryM `json:"entries,omitempty"`
	TrailHole int      `json:"trail_hole,omitempty"`
	EndMark   bool     `json:"end_mark,omitempty"`
	After     string   `json:"after,omitempty"` // hex: bytes after the end mark
	Hex       string   `json:"hex,omitempty"`   // a literal file (real samples) instead of a model
}

// AddM is one AddEntry call.
type AddM struct {
	Name     string `json:"name"` // slash-separated components
	Realm    string `json:"realm"`
	Password string `json:"password"`
	TS       uint32 `json:"ts"`
	KVNO     uint8  `json:"kvno"`
	EType    int32  `json:"etype"`
}

// LookupM is one GetEncryptionKey call.
type LookupM struct {
	Comps []BS   `json:"comps"`
	Realm BS     `json:"realm"`
	KVNO  uint32 `json:"kvno"`
	EType int32  `json:"etype"`
	Mut   string `json:"mut,omitempty"` // how the generator derived it from a present entry (informational)
}

// Case: a keytab (parsed from File, or keytab.New() when File is nil, then extended by Adds) that is
// compared with the independent reader, round-tripped, and queried.
type Case struct {
	Kind    string    `json:"kind"`
	File    *FileM    `json:"file,omitempty"`
	Adds    []AddM    `json:"adds,omitempty"`
	Lookups []LookupM `json:"lookups,omitempty"`
}

func unhex(s string) []byte { b, _ := hex.DecodeString(s); return b }

func strs(v []BS) []string {
	out := make([]string, len(v))
	for i, s := range v {
		out[i] = string(s)
	}
	return out
}

func bss(v []string) []BS {
	out := make([]BS, len(v))
	for i, s := range v {
		out[i] = BS(s)
	}
	return out
}

// ---------------------------------------------------------------------------------------------
// Reference side: render the file, derive the expected entries

func byteOrder(version int) binary.ByteOrder {
	if version == 1 {
		return binary.NativeEndian
	}
	return binary.BigEndian
}

// expect is the entry a reader must report for a generated entry, derived from the model alone
// (cross-checked against the independent reader on the rendered file).
func (m EntryM) expect(version int) ktf.Entry {
	e := ktf.Entry{Realm: string(m.Realm), Components: strs(m.Comps), Timestamp: m.TS, KVNO8: m.KVNO8, KeyType: m.EType, Key: unhex(m.Key)}
	if e.Key == nil {
		e.Key = []byte{}
	}
	if version != 1 {
		e.HasNameType, e.NameType = true, m.NameType
	}
	tail := []byte{}
	if m.KV32 != nil {
		var t [4]byte
		byteOrder(version).PutUint32(t[:], *m.KV32)
		tail = append(tail, t[:]...)
	}
	tail = append(tail, unhex(m.Pad)...)
	if len(tail) >= 4 {
		e.HasKVNO32, e.KVNO32 = true, byteOrder(version).Uint32(tail)
	}
	return e
}

func (f FileM) layout() ktf.File {
	out := ktf.File{Version: f.Version, EndMark: f.EndMark, After: unhex(f.After)}
	for _, m := range f.Entries {
		if m.HoleBefore > 0 {
			out.Records = append(out.Records, ktf.Record{Hole: m.HoleBefore})
		}
		e := ktf.Entry{Realm: string(m.Realm), Components: strs(m.Comps), NameType: m.NameType, Timestamp: m.TS, KVNO8: m.KVNO8,
			KeyType: m.EType, Key: unhex(m.Key)}
		if m.KV32 != nil {
			e.HasKVNO32, e.KVNO32 = true, *m.KV32
		}
		out.Records = append(out.Records, ktf.Record{Entry: &e, Pad: unhex(m.Pad)})
	}
	if f.TrailHole > 0 {
		out.Records = append(out.Records, ktf.Record{Hole: f.TrailHole})
	}
	return out
}

// canonical reports whether the file is what a plain writer emits for its entries: no holes, no
// slack, no end mark, every entry with a 32-bit key version that agrees with the effective one.
func (f FileM) canonical() bool {
	if f.Hex != "" || f.TrailHole != 0 || f.EndMark || f.After != "" {
		return false
	}
	for _, m := range f.Entries {
		if m.HoleBefore != 0 || m.Pad != "" || m.KV32 == nil || (*m.KV32 == 0 && m.KVNO8 != 0) {
			return false
		}
		if f.Version == 1 && m.NameType != 0 {
			return false
		}
	}
	return true
}

type prepared struct {
	version int
	file    []byte      // nil when the keytab starts as keytab.New()
	want    []ktf.Entry // entries of the file, then one per Add with a supported etype
	nfile   int         // how many of want come from the file
	addOK   []bool      // per Add: the etype is one the library must support
}

var s2kMemo sync.Map

func refKey(et int32, pw, salt string) ([]byte, error) {
	k := fmt.Sprintf("%d|%x|%x", et, pw, salt)
	if v, ok := s2kMemo.Load(k); ok {
		return v.([]byte), nil
	}
	key, err := ref.StringToKey(et, pw, salt, nil)
	if err == nil {
		s2kMemo.Store(k, key)
	}
	return key, err
}

func supported(et int32) bool {
	for _, e := range ref.ETypes {
		if e == et {
			return true
		}
	}
	return false
}

// prepare runs the reference side only (no gokrb5 keytab code).
func prepare(c Case) (*prepared, error) {
	p := &prepared{version: 2}
	if c.File != nil {
		f := c.File
		if f.Hex != "" {
			p.file = unhex(f.Hex)
			v, es, err := ktf.Read(p.file)
			if err != nil {
				return nil, fmt.Errorf("literal file not readable by the reference: %v", err)
			}
			p.version, p.want = v, es
		} else {
			b, err := f.layout().Bytes()
			if err != nil {
				return nil, fmt.Errorf("cannot render model: %v", err)
			}
			p.file, p.version = b, f.Version
			v, es, err := ktf.Read(b)
			if err != nil || v != f.Version {
				return nil, fmt.Errorf("reference reader rejects the rendered model: version %d, %v", v, err)
			}
			exp := []ktf.Entry{}
			for _, m := range f.Entries {
				if len(m.Realm) > maxName {
					return nil, fmt.Errorf("names longer than %d bytes are not modelled", maxName)
				}
				for _, c := range m.Comps {
					if len(c) > maxName {
						return nil, fmt.Errorf("names longer than %d bytes are not modelled", maxName)
					}
				}
				exp = append(exp, m.expect(f.Version))
			}
			if !reflect.DeepEqual(es, exp) {
				return nil, fmt.Errorf("reference reader disagrees with the model: read %+v, model %+v", es, exp)
			}
			p.want = es
		}
		p.nfile = len(p.want)
	}
	for _, a := range c.Adds {
		if strings.Contains(a.Name, "@") {
			return nil, fmt.Errorf("AddEntry names with '@' are not modelled")
		}
		ok := supported(a.EType)
		p.addOK = append(p.addOK, ok)
		if !ok {
			continue
		}
		comps := strings.Split(a.Name, "/")
		key, err := refKey(a.EType, a.Password, a.Realm+strings.Join(comps, ""))
		if err != nil {
			return nil, fmt.Errorf("reference string-to-key: %v", err)
		}
		p.want = append(p.want, ktf.Entry{Realm: a.Realm, Components: comps, HasNameType: false, Timestamp: a.TS, KVNO8: a.KVNO,
			KeyType: uint16(a.EType), Key: key, HasKVNO32: true, KVNO32: uint32(a.KVNO)})
	}
	return p, nil
}

// matches is the lookup filter of the property statement.
func matches(e ktf.Entry, l LookupM) bool {
	if e.Realm != string(l.Realm) || len(e.Components) != len(l.Comps) {
		return false
	}
	for i, c := range e.Components {
		if c != string(l.Comps[i]) {
			return false
		}
	}
	if e.KeyType >= 0x8000 || int32(e.KeyType) != l.EType {
		return false
	}
	return l.KVNO == 0 || e.KVNO() == l.KVNO
}

func matching(es []ktf.Entry, l LookupM) []ktf.Entry {
	out := []ktf.Entry{}
	for _, e := range es {
		if matches(e, l) {
			out = append(out, e)
		}
	}
	return out
}

// ---------------------------------------------------------------------------------------------
// gokrb5 side

type gEntry struct {
	Realm    string
	Comps    []string
	NameType uint32
	TS       uint32
	KVNO8    uint8
	KVNO     uint32
	EType    int32
	Key      []byte
}

func extract(kt *keytab.Keytab) []gEntry {
	out := []gEntry{}
	for _, e := range kt.Entries {
		g := gEntry{Realm: e.Principal.Realm, Comps: append([]string{}, e.Principal.Components...), NameType: uint32(e.Principal.NameType),
			TS: uint32(e.Timestamp.Unix()), KVNO8: e.KVNO8, KVNO: e.KVNO, EType: e.Key.KeyType, Key: append([]byte{}, e.Key.KeyValue...)}
		out = append(out, g)
	}
	return out
}

func short(b []byte) string {
	if len(b) > 40 {
		return fmt.Sprintf("%x...(%d bytes)", b[:40], len(b))
	}
	return fmt.Sprintf("%x", b)
}

func shortS(s string) string {
	if len(s) > 60 {
		return fmt.Sprintf("%q...(%d bytes)", s[:60], len(s))
	}
	return fmt.Sprintf("%q", s)
}

func shortL(v []string) string {
	o := []string{}
	for _, s := range v {
		o = append(o, shortS(s))
	}
	return "[" + strings.Join(o, " ") + "]"
}

// diffRef compares what gokrb5 holds with what the reference reader reports. nameType says whether
// the name type is comparable (version 2). It returns the first differing field, "" if none.
func diffRef(want []ktf.Entry, got []gEntry, nameType bool) (string, string) {
	if len(want) != len(got) {
		return "entry-count", fmt.Sprintf("%d entries, the reference reader finds %d", len(got), len(want))
	}
	for i, w := range want {
		g := got[i]
		switch {
		case g.Realm != w.Realm:
			return "realm", fmt.Sprintf("entry %d: realm %s, reference %s", i, shortS(g.Realm), shortS(w.Realm))
		case !reflect.DeepEqual(g.Comps, w.Components):
			return "components", fmt.Sprintf("entry %d: components %s, reference %s", i, shortL(g.Comps), shortL(w.Components))
		case nameType && w.HasNameType && g.NameType != w.NameType:
			return "name-type", fmt.Sprintf("entry %d: name type %d, reference %d", i, g.NameType, w.NameType)
		case g.TS != w.Timestamp:
			return "timestamp", fmt.Sprintf("entry %d: timestamp %d (mod 2^32), reference %d", i, g.TS, w.Timestamp)
		case g.KVNO8 != w.KVNO8:
			return "vno8", fmt.Sprintf("entry %d: 8-bit key version %d, reference %d", i, g.KVNO8, w.KVNO8)
		case g.KVNO != w.KVNO():
			return "kvno", fmt.Sprintf("entry %d: key version %d, reference %d (vno8 %d, 32-bit field present %v value %d)", i, g.KVNO, w.KVNO(), w.KVNO8, w.HasKVNO32, w.KVNO32)
		case uint16(g.EType) != w.KeyType || (w.KeyType < 0x8000 && g.EType != int32(w.KeyType)):
			return "key-type", fmt.Sprintf("entry %d: key type %d, reference %d", i, g.EType, w.KeyType)
		case !bytes.Equal(g.Key, w.Key):
			return "key", fmt.Sprintf("entry %d: key %s, reference %s", i, short(g.Key), short(w.Key))
		}
	}
	return "", ""
}

func feature(c Case, p *prepared) string {
	f := c.File
	if f == nil {
		return "built"
	}
	if p.nfile == 0 {
		if len(p.file) == 2 {
			return "bare-header"
		}
		return "no-entries"
	}
	if f.Hex != "" {
		return "literal"
	}
	hole, slack, no32, long := f.TrailHole > 0, false, false, false
	for _, m := range f.Entries {
		hole = hole || m.HoleBefore > 0
		slack = slack || m.Pad != ""
		no32 = no32 || m.KV32 == nil
		long = long || len(m.Realm) >= 255
		for _, c := range m.Comps {
			long = long || len(c) >= 255
		}
	}
	switch {
	case hole:
		return "hole"
	case slack:
		return "slack"
	case no32:
		return "no-vno32"
	case long:
		return "long-name"
	}
	return fmt.Sprintf("plain-v%d", f.Version)
}

func stripEntry(field string) string {
	if i := strings.Index(field, "."); i > 0 && strings.HasPrefix(field, "entry") {
		field = field[i+1:]
	}
	if strings.HasPrefix(field, "component") {
		return "component"
	}
	return field
}

// whereDiffers names the field in which a Marshal output first departs from the plain rendering of
// the expected entries. Used only to name the root cause once a failure is established.
func whereDiffers(version int, want []ktf.Entry, got []byte) string {
	es := make([]ktf.Entry, len(want))
	for i, w := range want {
		w.HasKVNO32, w.KVNO32 = true, w.KVNO()
		es[i] = w
	}
	exp, fields, err := ktf.Canonical(version, es).BytesMap()
	if err != nil {
		return "unrenderable"
	}
	n := len(exp)
	if len(got) < n {
		n = len(got)
	}
	for i := 0; i < n; i++ {
		if exp[i] != got[i] {
			return stripEntry(ktf.FieldAt(fields, i))
		}
	}
	if len(got) != len(exp) {
		return "length"
	}
	return "same-bytes"
}

// Eval judges one Case.
func Eval(c Case) evid.Verdict {
	return evid.SafeEval(func() evid.Verdict { return eval(c, false) })
}

// otherVersion is the same keytab in the other format version (without lookups). It is evaluated
// only after a round-trip failure, to decide whether the failure class is specific to a version.
func otherVersion(c Case) (Case, bool) {
	o := Case{Kind: c.Kind, Adds: c.Adds}
	switch {
	case c.File == nil:
		o.File = &FileM{Version: 1, EndMark: true}
	case c.File.Hex != "":
		return o, false
	default:
		f := *c.File
		f.Version = 3 - f.Version
		f.Entries = append([]EntryM{}, f.Entries...)
		for i := range f.Entries {
			if f.Version == 1 {
				f.Entries[i].NameType = 0
			}
		}
		o.File = &f
	}
	return o, true
}

// remarshalSig names a round-trip failure: "remarshal:<field>" when the same keytab fails in the
// same field in both versions, "remarshal:v<n>:<field>" when only version n fails.
func remarshalSig(c Case, probe bool, ver int, what string) string {
	if !probe {
		if o, ok := otherVersion(c); ok {
			v := evid.SafeEval(func() evid.Verdict { return eval(o, true) })
			if !v.OK && v.Sig == fmt.Sprintf("remarshal:v%d:%s", 3-ver, what) {
				return "remarshal:" + what
			}
		}
	}
	return fmt.Sprintf("remarshal:v%d:%s", ver, what)
}

func eval(c Case, probe bool) evid.Verdict {
	p, err := prepare(c)
	if err != nil {
		return evid.Fail("harness", "%v", err)
	}
	kt := keytab.New()
	ver := p.version
	// (a) parse equality with the independent reader
	if c.File != nil {
		in := append([]byte{}, p.file...)
		err := kt.Unmarshal(in)
		// the buffer handed to Unmarshal is the caller's: it is overwritten at once, and nothing parsed may change with it
		for k := range in {
			in[k] ^= 0xff
		}
		if err != nil {
			msg := err.Error()
			if len(msg) > 200 {
				msg = msg[:200] + "..."
			}
			return evid.Fail("parse:rejected:"+feature(c, p), "Unmarshal refuses a well-formed version-%d file of %d bytes with %d entries (%s): %s\nfile: %s",
				ver, len(p.file), p.nfile, feature(c, p), msg, short(p.file))
		}
		if f, msg := diffRef(p.want[:p.nfile], extract(kt), ver == 2); f != "" {
			return evid.Fail("parse:"+f, "Unmarshal of a version-%d file: %s\nfile: %s", ver, msg, short(p.file))
		}
	}
	// AddEntry
	wi := p.nfile
	for i, a := range c.Adds {
		before := len(kt.Entries)
		err := kt.AddEntry(a.Name, a.Realm, a.Password, time.Unix(int64(a.TS), 0), a.KVNO, a.EType)
		if !p.addOK[i] {
			if err == nil || len(kt.Entries) != before {
				return evid.Fail("addentry:unknown-etype-accepted", "AddEntry with etype %d: err=%v, entries %d -> %d", a.EType, err, before, len(kt.Entries))
			}
			continue
		}
		if err != nil {
			return evid.Fail("addentry:rejected", "AddEntry(%q, %q, etype %d) failed: %v", a.Name, a.Realm, a.EType, err)
		}
		if len(kt.Entries) != before+1 {
			return evid.Fail("addentry:entry-count", "AddEntry changed the number of entries from %d to %d", before, len(kt.Entries))
		}
		// the name type AddEntry assigns is not specified; take it from the keytab
		p.want[wi].HasNameType, p.want[wi].NameType = ver == 2, uint32(kt.Entries[before].Principal.NameType)
		if ver != 2 {
			p.want[wi].NameType = 0
		}
		wi++
	}
	held := extract(kt)
	if f, msg := diffRef(p.want, held, ver == 2); f != "" {
		return evid.Fail("addentry:"+f, "keytab after AddEntry calls: %s", msg)
	}
	// (b) round trip
	mb, err := kt.Marshal()
	if err != nil {
		return evid.Fail("marshal:error", "Marshal of a version-%d keytab with %d entries failed: %v", ver, len(held), err)
	}
	problem := ""
	rv, rents, rerr := ktf.Read(mb)
	switch {
	case rerr != nil:
		problem = fmt.Sprintf("the independent reader cannot read the Marshal output: %v", rerr)
	case rv != ver:
		problem = fmt.Sprintf("Marshal wrote version %d for a version-%d keytab", rv, ver)
	default:
		rg := make([]gEntry, len(rents))
		for i, e := range rents {
			rg[i] = gEntry{Realm: e.Realm, Comps: e.Components, NameType: e.NameType, TS: e.Timestamp, KVNO8: e.KVNO8, KVNO: e.KVNO(), EType: int32(e.KeyType), Key: e.Key}
			if e.KeyType >= 0x8000 {
				rg[i].EType = int32(int16(e.KeyType))
			}
		}
		if f, msg := diffRef(p.want, rg, ver == 2); f != "" {
			problem = fmt.Sprintf("the independent reader finds other entries in the Marshal output (%s): %s", f, msg)
		}
	}
	if problem == "" {
		kt2 := keytab.New()
		if err := kt2.Unmarshal(mb); err != nil {
			if len(held) == 0 && len(mb) == 2 {
				return evid.Fail("parse:rejected:bare-header", "Unmarshal(Marshal(kt)) fails for a version-%d keytab without entries: Marshal gives %x, Unmarshal says: %v", ver, mb, err)
			}
			msg := err.Error()
			if len(msg) > 200 {
				msg = msg[:200] + "..."
			}
			problem = fmt.Sprintf("Unmarshal(Marshal(kt)) fails: %s", msg)
		} else if again := extract(kt2); !reflect.DeepEqual(again, held) {
			f, msg := diffRef(p.want, again, ver == 2)
			if f == "" {
				// only the name type of version-1 entries may legitimately change (it is not stored)
				same := len(again) == len(held)
				for i := 0; same && i < len(held); i++ {
					a, h := again[i], held[i]
					if ver == 1 {
						a.NameType, h.NameType = 0, 0
					}
					same = reflect.DeepEqual(a, h)
				}
				if !same {
					problem = "Unmarshal(Marshal(kt)) holds other entries than kt"
				}
			} else {
				problem = fmt.Sprintf("Unmarshal(Marshal(kt)) holds other entries than kt (%s): %s", f, msg)
			}
		}
	}
	if problem != "" {
		return evid.Fail(remarshalSig(c, probe, ver, whereDiffers(ver, p.want, mb)), "round trip of a version-%d keytab with %d entries: %s\nMarshal output: %s",
			ver, len(held), problem, short(mb))
	}
	if c.File != nil && len(c.Adds) == 0 && c.File.canonical() && !bytes.Equal(mb, p.file) {
		return evid.Fail(remarshalSig(c, probe, ver, "bytes:"+whereDiffers(ver, p.want, mb)), "Marshal(Unmarshal(file)) differs from a plain version-%d file:\nfile:    %s\nMarshal: %s", ver, short(p.file), short(mb))
	}
	// (c) lookups
	for i, l := range c.Lookups {
		if l.EType < 0 || l.EType > 0x7FFF {
			return evid.Fail("harness", "lookup %d: etype %d outside 0..32767 is not modelled", i, l.EType)
		}
		if v := evalLookup(kt, p.want, i, l); !v.OK {
			return v
		}
	}
	return evid.Pass()
}

func describe(l LookupM) string {
	return fmt.Sprintf("GetEncryptionKey(%s @ %s, kvno %d, etype %d)", shortL(strs(l.Comps)), shortS(string(l.Realm)), l.KVNO, l.EType)
}

func describeE(e ktf.Entry) string {
	return fmt.Sprintf("{%s @ %s, kvno %d (vno8 %d), etype %d, timestamp %d, key %s}", shortL(e.Components), shortS(e.Realm), e.KVNO(), e.KVNO8, e.KeyType, e.Timestamp, short(e.Key))
}

func isPrefix(a, b []string) bool {
	if len(a) >= len(b) {
		return false
	}
	for i := range a {
		if a[i] != b[i] {
			return false
		}
	}
	return true
}

// whyWrong names the criterion an entry fails for a lookup.
func whyWrong(e ktf.Entry, l LookupM) string {
	lc := strs(l.Comps)
	switch {
	case e.Realm != string(l.Realm):
		return "wrong-realm"
	case len(e.Components) != len(lc) && (isPrefix(e.Components, lc) || isPrefix(lc, e.Components)):
		return "wrong-component-count"
	case !reflect.DeepEqual(e.Components, lc):
		return "wrong-component"
	case e.KeyType >= 0x8000 || int32(e.KeyType) != l.EType:
		return "wrong-etype"
	case l.KVNO != 0 && e.KVNO() != l.KVNO:
		return "wrong-kvno"
	}
	return "matching"
}

func evalLookup(kt *keytab.Keytab, model []ktf.Entry, i int, l LookupM) evid.Verdict {
	pn := types.PrincipalName{NameType: 1, NameString: strs(l.Comps)}
	key, kv, err := kt.GetEncryptionKey(pn, string(l.Realm), int(l.KVNO), l.EType)
	m := matching(model, l)
	if err != nil {
		if len(m) == 0 {
			return evid.Pass()
		}
		return evid.Fail("lookup:matching-entry-not-found", "lookup %d: %s fails (%v) although the keytab holds %d matching entries, e.g. %s", i, describe(l), err, len(m), describeE(m[0]))
	}
	// which entry was returned?
	for _, e := range m {
		if bytes.Equal(e.Key, key.KeyValue) && int(e.KVNO()) == kv {
			if key.KeyType != l.EType {
				return evid.Fail("lookup:returned-key-type", "lookup %d: %s returns a key of type %d", i, describe(l), key.KeyType)
			}
			goto newest
		}
	}
	for _, e := range model {
		if bytes.Equal(e.Key, key.KeyValue) && int(e.KVNO()) == kv {
			return evid.Fail("lookup:"+whyWrong(e, l)+"-accepted", "lookup %d: %s returns kvno %d key %s, which belongs to the non-matching entry %s (%d entries match)",
				i, describe(l), kv, short(key.KeyValue), describeE(e), len(m))
		}
	}
	for _, e := range m {
		if bytes.Equal(e.Key, key.KeyValue) {
			return evid.Fail("lookup:returned-kvno", "lookup %d: %s returns the key of %s with kvno %d", i, describe(l), describeE(e), kv)
		}
	}
	return evid.Fail("lookup:unknown-key-returned", "lookup %d: %s returns kvno %d key %s, which no entry holds (%d entries match)", i, describe(l), kv, short(key.KeyValue), len(m))
newest:
	if l.KVNO != 0 {
		return evid.Pass() // the statement ranks entries only for "any version"
	}
	var max uint32
	for _, e := range m {
		if e.Timestamp >= 1<<31 {
			return evid.Pass() // signedness of the stored time is not specified; no ranking demanded
		}
		if e.Timestamp > max {
			max = e.Timestamp
		}
	}
	for _, e := range m {
		if e.Timestamp == max && bytes.Equal(e.Key, key.KeyValue) && int(e.KVNO()) == kv {
			return evid.Pass()
		}
	}
	return evid.Fail("lookup:not-newest", "lookup %d: %s returns kvno %d key %s although a matching entry with a later timestamp (%d) exists; matching entries: %s",
		i, describe(l), kv, short(key.KeyValue), max, func() string {
			o := []string{}
			for _, e := range m {
				o = append(o, describeE(e))
			}
			return strings.Join(o, " ")
		}())
}

// ---------------------------------------------------------------------------------------------
// Generators

var realmPool = []string{"EXAMPLE.COM", "EXAMPLE.COMX", "EXAMPLE.CO", "example.com", "TEST.GOKRB5", "A", "Ünïcode.Réalm", ""}
var compPool = []string{"HTTP", "host.example.com", "host.example.co", "host", "http", "krbtgt", "EXAMPLE.COM", "user1", "admin", "", "x", "ü", "a/b", "a@b", "sp ace", "db/primary", "a/b", "x/"}
var etypePool = []uint16{17, 18, 23, 16, 19, 20, 1, 3, 0, 24, 0x7FFF, 0x8000, 0x8012, 0xFFFF}
var longLens = []int{255, 256, 257, 300, 1000, 32767}

func drawName(t *rapid.T, label string, pool []string) BS {
	switch rapid.IntRange(0, 19).Draw(t, label+"-class") {
	case 0:
		return ""
	case 1:
		return rep(rapid.SampledFrom([]string{"a", "ab", "xyz.", "é"}).Draw(t, label+"-unit"), rapid.SampledFrom(longLens).Draw(t, label+"-len"))
	case 2:
		return BS(rapid.SliceOfN(rapid.Byte(), 1, 12).Draw(t, label+"-raw"))
	case 3:
		return BS(string(rapid.SliceOfN(rapid.Rune(), 1, 8).Draw(t, label+"-utf8")))
	case 4, 5:
		return BS(rapid.StringMatching(`[a-zA-Z0-9.\-_]{1,20}`).Draw(t, label+"-ascii"))
	}
	return BS(rapid.SampledFrom(pool).Draw(t, label+"-pool"))
}

func nameClass(s BS) string {
	switch {
	case len(s) == 0:
		return "name:empty"
	case len(s) >= 32767:
		return "name:32767"
	case len(s) >= 255:
		return "name:255+"
	case !utf8.ValidString(string(s)):
		return "name:raw-bytes"
	case !plain(string(s)) || len(s) != len([]rune(string(s))):
		return "name:non-ascii"
	}
	return "name:ascii"
}

// variant derives a near-miss of a realm or component.
func variant(t *rapid.T, label string, s BS) BS {
	v := variant0(t, label, s)
	if len(v) > maxName {
		v = v[:maxName]
	}
	return v
}

// maxName: 16-bit lengths above 32767 are read as negative by MIT krb5 itself; the format document
// does not say whether they are signed, so such names are outside the property.
const maxName = 32767

func variant0(t *rapid.T, label string, s BS) BS {
	v := string(s)
	switch rapid.IntRange(0, 5).Draw(t, label+"-var") {
	case 0:
		return BS(v + "X")
	case 1:
		if len(v) > 0 {
			return BS(v[:len(v)-1])
		}
		return "x"
	case 2:
		if u := strings.ToUpper(v); u != v {
			return BS(u)
		}
		if lo := strings.ToLower(v); lo != v {
			return BS(lo)
		}
		return BS(v + ".")
	case 3:
		return BS(v + "\x00")
	case 4:
		return BS(" " + v)
	}
	if len(v) > 1 {
		return BS(v[1:])
	}
	return BS(v + v + "y")
}

func drawTS(t *rapid.T, lookup bool) uint32 {
	if lookup {
		if rapid.IntRange(0, 9).Draw(t, "ts-class") > 0 {
			return rapid.SampledFrom([]uint32{0, 1, 2, 1000, 1000, 2000, 3000, 1500000000, 1500000001, 1<<31 - 1}).Draw(t, "ts")
		}
		return rapid.Uint32().Draw(t, "ts")
	}
	switch rapid.IntRange(0, 5).Draw(t, "ts-class") {
	case 0:
		return rapid.SampledFrom([]uint32{0, 1, 1<<31 - 1, 1 << 31, 1<<31 + 1, 1<<32 - 1}).Draw(t, "ts")
	case 1, 2:
		return uint32(rapid.IntRange(1400000000, 1900000000).Draw(t, "ts"))
	}
	return rapid.Uint32().Draw(t, "ts")
}

func drawKV32(t *rapid.T, vno8 uint8) (*uint32, string) {
	p := func(v uint32) *uint32 { return &v }
	switch rapid.IntRange(0, 9).Draw(t, "vno32-mode") {
	case 0, 1:
		return nil, "vno32:absent"
	case 2:
		return p(0), "vno32:zero"
	case 3, 4, 5:
		return p(uint32(vno8)), "vno32:same"
	case 6:
		return p(uint32(rapid.IntRange(256, 70000).Draw(t, "vno32"))), "vno32:>255"
	case 7:
		return p(uint32(vno8) + 256*uint32(rapid.IntRange(1, 3).Draw(t, "vno32-wrap"))), "vno32:same-mod-256"
	case 8:
		return p(1<<32 - 1), "vno32:max"
	}
	return p(rapid.Uint32Range(1, 1<<32-1).Draw(t, "vno32")), "vno32:random"
}

type filePools struct {
	realms []BS
	princs [][]BS
	etypes []uint16
}

// drawFile draws a keytab file model. mode: "parse" (everything the format allows), "lookup"
// (non-empty keys, clustered principals / key versions / timestamps so that several entries
// compete for a lookup).
func drawFile(t *rapid.T, mode string) (FileM, filePools, []string) {
	lookup := mode == "lookup"
	f := FileM{Version: rapid.IntRange(1, 2).Draw(t, "version")}
	labels := []string{fmt.Sprintf("version%d", f.Version)}
	var pl filePools
	nr := rapid.IntRange(1, 3).Draw(t, "nrealms")
	for i := 0; i < nr; i++ {
		if i > 0 && rapid.Bool().Draw(t, "realm-near") {
			pl.realms = append(pl.realms, variant(t, "realm", pl.realms[rapid.IntRange(0, i-1).Draw(t, "of")]))
		} else {
			pl.realms = append(pl.realms, drawName(t, "realm", realmPool))
		}
	}
	np := rapid.IntRange(1, 3).Draw(t, "nprincs")
	for i := 0; i < np; i++ {
		if i > 0 && rapid.IntRange(0, 2).Draw(t, "princ-near") > 0 {
			base := pl.princs[rapid.IntRange(0, i-1).Draw(t, "of")]
			p := append([]BS{}, base...)
			switch k := rapid.IntRange(0, 3).Draw(t, "princ-var"); {
			case k == 0 && len(p) > 0:
				p = p[:len(p)-1] // a prefix
			case k == 1 && len(p) < 4:
				p = append(p, drawName(t, "comp", compPool)) // an extension
			case k == 2 && len(p) > 0:
				j := rapid.IntRange(0, len(p)-1).Draw(t, "which")
				p[j] = variant(t, "comp", p[j])
			case len(p) >= 2:
				p[0], p[len(p)-1] = p[len(p)-1], p[0]
			default:
				p = append(p, "")
			}
			pl.princs = append(pl.princs, p)
			continue
		}
		nc := rapid.SampledFrom([]int{0, 1, 1, 2, 2, 2, 3, 4}).Draw(t, "ncomps")
		p := []BS{}
		for j := 0; j < nc; j++ {
			p = append(p, drawName(t, "comp", compPool))
		}
		pl.princs = append(pl.princs, p)
	}
	ne := rapid.IntRange(1, 3).Draw(t, "netypes")
	for i := 0; i < ne; i++ {
		if lookup && rapid.IntRange(0, 9).Draw(t, "etype-known") > 0 {
			pl.etypes = append(pl.etypes, rapid.SampledFrom([]uint16{17, 18, 23, 16, 19, 20, 1, 0x7FFF}).Draw(t, "etype"))
		} else if rapid.Bool().Draw(t, "etype-pool") {
			pl.etypes = append(pl.etypes, rapid.SampledFrom(etypePool).Draw(t, "etype"))
		} else {
			pl.etypes = append(pl.etypes, rapid.Uint16().Draw(t, "etype"))
		}
	}
	plainLayout := rapid.IntRange(0, 3).Draw(t, "layout") == 0
	if plainLayout {
		labels = append(labels, "layout:plain")
	} else {
		labels = append(labels, "layout:mixed")
	}
	n := rapid.SampledFrom([]int{0, 1, 1, 2, 2, 3, 3, 4, 5, 6, 7, 8}).Draw(t, "nentries")
	if lookup {
		n = rapid.SampledFrom([]int{0, 1, 2, 3, 3, 4, 4, 5, 6, 7, 8, 8}).Draw(t, "nentries")
	}
	labels = append(labels, fmt.Sprintf("entries%d", n))
	for i := 0; i < n; i++ {
		m := EntryM{Realm: rapid.SampledFrom(pl.realms).Draw(t, "e-realm"), Comps: append([]BS{}, rapid.SampledFrom(pl.princs).Draw(t, "e-princ")...),
			EType: rapid.SampledFrom(pl.etypes).Draw(t, "e-etype"), TS: drawTS(t, lookup)}
		if f.Version == 2 {
			m.NameType = rapid.SampledFrom([]uint32{1, 1, 1, 2, 3, 0, 10, 1 << 31, 1<<32 - 1}).Draw(t, "name-type")
		}
		if lookup {
			m.KVNO8 = rapid.SampledFrom([]uint8{0, 1, 1, 2, 2, 3, 44, 255}).Draw(t, "vno8")
		} else {
			m.KVNO8 = rapid.Uint8().Draw(t, "vno8")
		}
		var l string
		m.KV32, l = drawKV32(t, m.KVNO8)
		if plainLayout && (m.KV32 == nil || *m.KV32 == 0) {
			v := uint32(m.KVNO8)
			m.KV32, l = &v, "vno32:same"
		}
		labels = append(labels, l)
		kl := rapid.SampledFrom([]int{16, 16, 32, 24, 1, 2, 8, 63, 64}).Draw(t, "keylen")
		if !lookup && rapid.IntRange(0, 19).Draw(t, "key-empty") == 0 {
			kl = 0
			labels = append(labels, "key:empty")
		}
		m.Key = hex.EncodeToString(kgen.Bytes(t, "key", kl))
		if !plainLayout {
			if rapid.IntRange(0, 3).Draw(t, "hole?") == 0 {
				m.HoleBefore = rapid.SampledFrom([]int{1, 2, 3, 4, 5, 8, 16, 39, 40}).Draw(t, "hole")
				labels = append(labels, "hole:between")
			}
			if rapid.IntRange(0, 3).Draw(t, "pad?") == 0 {
				if m.KV32 == nil {
					k := rapid.SampledFrom([]int{1, 2, 3, 3, 4, 5, 8, 12}).Draw(t, "padlen")
					if k >= 4 {
						m.Pad = strings.Repeat("00", k) // the remains of a zero-filled hole
						labels = append(labels, "slack:zeros>=4-without-vno32")
					} else {
						m.Pad = hex.EncodeToString(kgen.Bytes(t, "pad", k))
						labels = append(labels, "slack:<4-without-vno32")
					}
				} else {
					k := rapid.IntRange(1, 12).Draw(t, "padlen")
					if rapid.Bool().Draw(t, "pad-zero") {
						m.Pad = strings.Repeat("00", k)
					} else {
						m.Pad = hex.EncodeToString(kgen.Bytes(t, "pad", k))
					}
					labels = append(labels, "slack:after-vno32")
				}
			}
		}
		f.Entries = append(f.Entries, m)
	}
	if !plainLayout {
		if rapid.IntRange(0, 3).Draw(t, "trail-hole?") == 0 {
			f.TrailHole = rapid.SampledFrom([]int{1, 3, 4, 7, 40}).Draw(t, "trail-hole")
			labels = append(labels, "hole:trailing")
		}
		if rapid.IntRange(0, 2).Draw(t, "end-mark?") == 0 {
			f.EndMark = true
			labels = append(labels, "end-mark")
			if rapid.IntRange(0, 5).Draw(t, "after?") == 0 {
				// whatever follows the end mark is not part of the keytab
				f.After = rapid.SampledFrom([]string{"00000000", "0000", "0000000000000000", "00000003000000"}).Draw(t, "after")
				labels = append(labels, "bytes-after-end-mark")
			}
		}
	}
	return f, pl, labels
}

func fileNT(f FileM) bool {
	if len(f.Entries) < 2 {
		return false
	}
	if f.Version == 1 || f.TrailHole > 0 {
		return true
	}
	for _, m := range f.Entries {
		if m.HoleBefore > 0 || m.KV32 == nil {
			return true
		}
	}
	return false
}

func fileLabels(f FileM) []string {
	ls := []string{}
	seen := map[string]bool{}
	add := func(s string) {
		if !seen[s] {
			seen[s] = true
			ls = append(ls, s)
		}
	}
	for _, m := range f.Entries {
		add(nameClass(m.Realm))
		add(fmt.Sprintf("comps%d", len(m.Comps)))
		for _, c := range m.Comps {
			add(nameClass(c))
		}
		switch {
		case m.EType >= 0x8000:
			add("etype:>=0x8000")
		case supported(int32(m.EType)):
			add("etype:supported")
		default:
			add("etype:other")
		}
		if m.TS >= 1<<31 {
			add("ts:>=2^31")
		}
	}
	if f.canonical() {
		add("byte-identity-checked")
	}
	return ls
}

var lookupMuts = []string{"exact", "exact", "kvno0", "kvno0", "other-realm", "comp-prefix", "comp-ext", "comp-mod", "comp-swap", "comp-join", "comp-regroup", "comp-regroup",
	"other-etype", "other-kvno", "other-kvno", "absent"}

// drawLookup derives a lookup from a present entry by zero, one or two near-miss mutations.
func drawLookup(t *rapid.T, model []ktf.Entry, pl filePools) LookupM {
	reqEtype := func(k uint16) int32 {
		if k >= 0x8000 {
			return int32(rapid.SampledFrom([]uint16{17, 18, 23}).Draw(t, "lk-etype"))
		}
		return int32(k)
	}
	mut := rapid.SampledFrom(lookupMuts).Draw(t, "mut")
	if len(model) == 0 || mut == "absent" {
		nc := rapid.IntRange(0, 3).Draw(t, "lk-ncomps")
		l := LookupM{Realm: drawName(t, "lk-realm", realmPool), KVNO: uint32(rapid.IntRange(0, 3).Draw(t, "lk-kvno")),
			EType: reqEtype(rapid.SampledFrom(etypePool).Draw(t, "lk-et")), Mut: "absent", Comps: []BS{}}
		for j := 0; j < nc; j++ {
			l.Comps = append(l.Comps, drawName(t, "lk-comp", compPool))
		}
		return l
	}
	b := model[rapid.IntRange(0, len(model)-1).Draw(t, "base")]
	l := LookupM{Comps: bss(b.Components), Realm: BS(b.Realm), KVNO: b.KVNO(), EType: reqEtype(b.KeyType)}
	muts := []string{mut}
	if rapid.IntRange(0, 3).Draw(t, "two-muts") == 0 {
		muts = append(muts, rapid.SampledFrom(lookupMuts[:len(lookupMuts)-1]).Draw(t, "mut2"))
	}
	applied := []string{}
	for _, mu := range muts {
		switch mu {
		case "kvno0":
			l.KVNO = 0
		case "other-realm":
			if len(pl.realms) > 1 && rapid.Bool().Draw(t, "pool-realm") {
				l.Realm = rapid.SampledFrom(pl.realms).Draw(t, "lk-realm")
			} else {
				l.Realm = variant(t, "lk-realm", l.Realm)
			}
		case "comp-prefix":
			if len(l.Comps) == 0 {
				mu = "comp-ext"
				l.Comps = append(l.Comps, "")
			} else {
				l.Comps = l.Comps[:len(l.Comps)-1]
			}
		case "comp-ext":
			ext := rapid.SampledFrom([]BS{"", "x", "host"}).Draw(t, "ext")
			if len(l.Comps) > 0 && rapid.Bool().Draw(t, "ext-dup") {
				ext = l.Comps[len(l.Comps)-1]
			}
			l.Comps = append(append([]BS{}, l.Comps...), ext)
		case "comp-mod":
			if len(l.Comps) == 0 {
				mu = "comp-ext"
				l.Comps = append(l.Comps, "x")
			} else {
				j := rapid.IntRange(0, len(l.Comps)-1).Draw(t, "which")
				l.Comps = append([]BS{}, l.Comps...)
				l.Comps[j] = variant(t, "lk-comp", l.Comps[j])
			}
		case "comp-swap":
			if len(l.Comps) >= 2 {
				c := append([]BS{}, l.Comps...)
				c[0], c[len(c)-1] = c[len(c)-1], c[0]
				l.Comps = c
			} else if len(pl.princs) > 0 {
				mu = "other-princ"
				l.Comps = append([]BS{}, rapid.SampledFrom(pl.princs).Draw(t, "lk-princ")...)
			}
		case "comp-regroup":
			// the same characters and the same number of components, with a "/" that lies inside one component moved to the
			// boundary: ["backup","db/primary"] -> ["backup/db","primary"]
			done := false
			for j, c := range l.Comps {
				i := strings.Index(string(c), "/")
				if i < 0 || len(l.Comps) < 2 {
					continue
				}
				n := append([]BS{}, l.Comps...)
				if j > 0 {
					n[j-1], n[j] = BS(string(n[j-1])+"/"+string(c)[:i]), BS(string(c)[i+1:])
				} else {
					n[0], n[1] = BS(string(c)[:i]), BS(string(c)[i+1:]+"/"+string(n[1]))
				}
				l.Comps, done = n, true
				break
			}
			if !done {
				mu = "comp-mod"
				if len(l.Comps) == 0 {
					l.Comps = append(l.Comps, "x")
				} else {
					l.Comps = append([]BS{}, l.Comps...)
					l.Comps[0] = variant(t, "lk-comp", l.Comps[0])
				}
			}
		case "comp-join":
			if len(l.Comps) >= 2 {
				j := BS(strings.Join(strs(l.Comps[len(l.Comps)-2:]), "/"))
				l.Comps = append(append([]BS{}, l.Comps[:len(l.Comps)-2]...), j)
			} else if len(l.Comps) == 1 && len(l.Comps[0]) >= 2 {
				s := string(l.Comps[0])
				l.Comps = []BS{BS(s[:len(s)/2]), BS(s[len(s)/2:])}
			} else {
				mu = "comp-ext"
				l.Comps = append(append([]BS{}, l.Comps...), "")
			}
		case "other-etype":
			switch rapid.IntRange(0, 3).Draw(t, "et-var") {
			case 0:
				l.EType = (l.EType + 1) & 0x7FFF
			case 1:
				l.EType = (l.EType - 1) & 0x7FFF
			case 2:
				l.EType = reqEtype(rapid.SampledFrom(pl.etypes).Draw(t, "lk-et"))
			default:
				l.EType = 0
			}
		case "other-kvno":
			switch rapid.IntRange(0, 6).Draw(t, "kv-var") {
			case 0:
				l.KVNO = b.KVNO() + 1
			case 1:
				l.KVNO = b.KVNO() - 1
			case 2:
				l.KVNO = uint32(b.KVNO8) // the 8-bit value, which a 32-bit one overrides
			case 3:
				l.KVNO = b.KVNO() & 0xFF
			case 4:
				l.KVNO = b.KVNO() + 256
			case 5:
				l.KVNO = b.KVNO32
			default:
				l.KVNO = model[rapid.IntRange(0, len(model)-1).Draw(t, "kv-of")].KVNO()
			}
		}
		applied = append(applied, mu)
	}
	// "exact" adds nothing to another mutation, and a repeated mutation is still one class
	uniq := []string{}
	for _, a := range applied {
		dup := a == "exact" && len(applied) > 1
		for _, u := range uniq {
			dup = dup || u == a
		}
		if !dup {
			uniq = append(uniq, a)
		}
	}
	if len(uniq) == 0 {
		uniq = []string{"exact"}
	}
	l.Mut = strings.Join(uniq, "+")
	if l.Comps == nil {
		l.Comps = []BS{}
	}
	return l
}

func fileKey(p *prepared) string { return hex.EncodeToString(p.file) }

func lookupKey(l LookupM) string {
	b, _ := json.Marshal(l)
	return string(b)
}

// ---------------------------------------------------------------------------------------------

func repoDir() string {
	if d := os.Getenv("VERIF_REPO"); d != "" {
		return d
	}
	return "/repo/v8"
}

func samples() map[string][]byte {
	s := map[string][]byte{}
	if b, err := os.ReadFile(filepath.Join(repoDir(), "test", "testdata", "testuser1.testtab")); err == nil {
		s["testuser1.testtab"] = b
	}
	for name, h := range map[string]string{
		"KEYTAB_TESTUSER1_TEST_GOKRB5":             testdata.KEYTAB_TESTUSER1_TEST_GOKRB5,
		"KEYTAB_TESTUSER2_TEST_GOKRB5":             testdata.KEYTAB_TESTUSER2_TEST_GOKRB5,
		"KEYTAB_TESTUSER1_TEST_GOKRB5_WRONGPASSWD": testdata.KEYTAB_TESTUSER1_TEST_GOKRB5_WRONGPASSWD,
		"KEYTAB_SYSHTTP_TEST_GOKRB5":               testdata.KEYTAB_SYSHTTP_TEST_GOKRB5,
		"KEYTAB_SYSHTTP_RESDOM_GOKRB5":             testdata.KEYTAB_SYSHTTP_RESDOM_GOKRB5,
		"HTTP_KEYTAB":                              testdata.HTTP_KEYTAB,
		"KEYTAB_TESTUSER1_USER_GOKRB5":             testdata.KEYTAB_TESTUSER1_USER_GOKRB5,
		"KEYTAB_TESTUSER2_USER_GOKRB5":             testdata.KEYTAB_TESTUSER2_USER_GOKRB5,
		"KEYTAB_TESTUSER3_USER_GOKRB5":             testdata.KEYTAB_TESTUSER3_USER_GOKRB5,
		"KEYTAB_SYSHTTP_RES_GOKRB5":                testdata.KEYTAB_SYSHTTP_RES_GOKRB5,
	} {
		s[name] = unhex(h)
	}
	return s
}

func TestProp(t *testing.T) {
	r := evid.Start(t, "C14", "exploration")
	for _, k := range []string{"samples", "files", "grid", "names", "lookups", "lookup-grid", "built"} {
		evid.Reg(r, k, Eval)
	}
	if r.Replay() {
		return
	}
	defer r.Finish()
	var pool evid.Pool[Case] // rapid-drawn cases, evaluated side by side once more at the end
	defer func() { evid.Concurrent(r, &pool, 16, Eval) }()
	smp := samples()
	if _, ok := smp["testuser1.testtab"]; !ok {
		r.Inconclusive("sample keytab test/testdata/testuser1.testtab not found under %s", repoDir())
		return
	}
	if err := ktf.SelfTest(smp); err != nil {
		r.Inconclusive("reference self-test failed: %v", err)
		return
	}
	if err := ref.SelfTest(); err != nil {
		r.Inconclusive("reference crypto self-test failed: %v", err)
		return
	}
	r.Regress()
	r.Assume("ref/keytabfmt (written from the MIT keytab format document) is validated at start-up on two hand-assembled files (version 1 little-endian and version 2, with holes, slack, missing and zero 32-bit key versions) and on 11 MIT-written keytabs from gokrb5's test data, which it re-writes byte-identically; version 1 is rendered in host byte order (" + hostOrder() + ")")
	r.Assume("not demanded (unspecified by the property): signedness of 16-bit lengths (names are <= 32767 bytes) and of the key type (lookups use etypes 0..32767), ranking of entries with timestamps >= 2^31, ranking among entries when a non-zero kvno is requested, lookups that could only match an empty key, the name type of version-1 entries and of AddEntry, requested kvno outside 0..2^32-1")
	r.Assume("keys expected from AddEntry come from ref/krbcrypto.StringToKey with the default salt (realm + components) and default parameters")

	useJDK := r.Thorough() || os.Getenv("VERIF_JDK") != ""
	// every lookup of a Case is counted as one evaluation besides the Case itself
	enumFails := map[string]enumFail{}
	var enumMu sync.Mutex
	var judgeAt func(check string, enumIdx int, c Case, rt *rapid.T, labels ...string)
	judge := func(check string, c Case, rt *rapid.T, labels ...string) { judgeAt(check, -1, c, rt, labels...) }
	judgeAt = func(check string, enumIdx int, c Case, rt *rapid.T, labels ...string) {
		p, err := prepare(c)
		if err != nil {
			r.Inconclusive("generator produced a case the reference side cannot handle: %v", err)
			if rt != nil {
				rt.Fatalf("harness: %v", err)
			}
			return
		}
		nt := ""
		if c.File != nil {
			if useJDK {
				jdkCollect(*c.File, p.file)
			}
			labels = append(labels, fileLabels(*c.File)...)
			if fileNT(*c.File) {
				nt = "file|" + fileKey(p)
				labels = append(labels, "file:non-trivial")
			}
		}
		if len(c.Adds) > 0 {
			nt = fmt.Sprintf("built|%s|%v", fileKey(p), c.Adds)
		}
		if c.Kind == "lookup-grid" {
			// the same six files are queried thousands of times: count the lookups only
			for _, l := range append(labels, "kind:"+c.Kind) {
				r.Label(l)
			}
		} else {
			r.Count(nt, append(labels, "kind:"+c.Kind)...)
		}
		r.Sample(c.Kind+"/"+strings.Join(labels, ","), c)
		for _, l := range c.Lookups {
			m := matching(p.want, l)
			ls := []string{}
			for _, mu := range strings.Split(l.Mut, "+") {
				ls = append(ls, "lookup:"+mu)
			}
			if strings.Contains(l.Mut, "+") {
				ls = append(ls, "lookup:two-mutations")
			}
			switch {
			case len(m) == 0:
				ls = append(ls, "lookup-expect:miss")
			case len(m) == 1:
				ls = append(ls, "lookup-expect:hit-single")
			default:
				ls = append(ls, "lookup-expect:hit-among-several")
				if l.KVNO == 0 {
					ls = append(ls, "lookup-expect:newest-of-several")
				}
			}
			lnt := ""
			if l.Mut != "exact" {
				lnt = "lookup|" + fileKey(p) + "|" + fmt.Sprint(c.Adds) + "|" + lookupKey(l)
			}
			r.Count(lnt, ls...)
		}
		v := Eval(c)
		switch {
		case rt != nil:
			if v.OK {
				pool.Add(check, c)
			}
			if r.Judge(check, c, v) {
				rt.Fatalf("violation: %s", v.Sig)
			}
		case enumIdx >= 0:
			// parallel enumeration: keep the failing case with the lowest index per signature so
			// that the replay file does not depend on goroutine timing
			if !v.OK {
				enumMu.Lock()
				k := check + "|" + v.Sig
				if old, ok := enumFails[k]; !ok || enumIdx < old.idx {
					enumFails[k] = enumFail{enumIdx, check, c, v}
				}
				enumMu.Unlock()
			}
		default:
			r.Violation(check, c, v)
		}
	}

	// real keytabs: parse equality, round trip, byte identity, a lookup for every entry
	r.Rule("samples: the 11 MIT-written keytabs of gokrb5's test data, each with exact, kvno-0 and other-realm lookups for every entry")
	names := []string{}
	for n := range smp {
		names = append(names, n)
	}
	sortStrings(names)
	for _, n := range names {
		c := Case{Kind: "samples", File: &FileM{Hex: hex.EncodeToString(smp[n])}}
		_, es, _ := ktf.Read(smp[n])
		for _, e := range es {
			c.Lookups = append(c.Lookups,
				LookupM{Comps: bss(e.Components), Realm: BS(e.Realm), KVNO: e.KVNO(), EType: int32(e.KeyType), Mut: "exact"},
				LookupM{Comps: bss(e.Components), Realm: BS(e.Realm), KVNO: 0, EType: int32(e.KeyType), Mut: "kvno0"},
				LookupM{Comps: bss(e.Components), Realm: BS(e.Realm + "X"), KVNO: e.KVNO(), EType: int32(e.KeyType), Mut: "other-realm"})
		}
		judge("samples", c, nil)
	}

	r.Rule("files: version {1,2} x 0..8 entries drawn from per-file pools of 1..3 realms / principals (0..4 components; later pool members are prefixes, extensions or one-character variants of earlier ones) / key types (any 16-bit id); names empty, ASCII, UTF-8, raw bytes, 255..32767 bytes; vno8 0..255; 32-bit key version {absent, 0, = vno8, > 255, = vno8 mod 256, 2^32-1, random}; timestamps over 0..2^32-1; key length 0..64; holes of 1..40 bytes before entries and trailing; slack bytes inside records (zeros >= 4 or < 4 bytes without the 32-bit field, any bytes after it); end mark, bytes after the end mark; a quarter of the files in the plain layout (byte identity of Marshal(Unmarshal(file)) checked); non-trivial = >= 2 entries and (a hole, a missing 32-bit key version, or version 1), distinct by file bytes")
	r.Rapid("files", r.N(3000, 50000), func(t *rapid.T) {
		f, _, labels := drawFile(t, "parse")
		judge("files", Case{Kind: "files", File: &f}, t, labels...)
	})

	r.Rule("lookups: files as above but with non-empty keys and clustered key versions / timestamps (< 2^31 nine times in ten, ties included); 10 lookups per file, each derived from a present entry by 0..2 mutations {none, kvno 0, other realm (pool member or one-character variant), component prefix, extension, modification, swap, join/split, other etype, other kvno (+-1, vno8 instead of the 32-bit value, value mod 256, +256)} or a principal that is absent; non-trivial = any lookup that is not an exact copy of an entry, distinct by (file, lookup)")
	r.Rapid("lookups", r.N(3000, 60000), func(t *rapid.T) {
		f, pl, labels := drawFile(t, "lookup")
		c := Case{Kind: "lookups", File: &f}
		p, err := prepare(c)
		if err != nil {
			r.Inconclusive("generator: %v", err)
			t.Fatalf("harness: %v", err)
		}
		for i := 0; i < 10; i++ {
			c.Lookups = append(c.Lookups, drawLookup(t, p.want, pl))
		}
		judge("lookups", c, t, labels...)
	})

	r.Rule("built: keytab.New() or a parsed version-1/2 file (possibly without entries) extended by 1..4 AddEntry calls (six supported etypes and unsupported ids, 1..3 components, ASCII and non-ASCII passwords, kvno 0..255, timestamps 0..2^32-1), then round trip and 6 lookups; expected keys from the reference string-to-key")
	r.Rapid("built", r.N(150, 3000), func(t *rapid.T) {
		c := Case{Kind: "built"}
		var pl filePools
		labels := []string{}
		switch rapid.IntRange(0, 3).Draw(t, "base") {
		case 0, 1:
			labels = append(labels, "base:new")
		case 2:
			f, p, ls := drawFile(t, "lookup")
			c.File, pl, labels = &f, p, append(ls, "base:parsed-file")
		default:
			f := FileM{Version: rapid.IntRange(1, 2).Draw(t, "version"), EndMark: true}
			c.File = &f
			labels = append(labels, fmt.Sprintf("base:empty-v%d", f.Version))
		}
		na := rapid.IntRange(1, 4).Draw(t, "nadds")
		names := []string{}
		for i := 0; i < na; i++ {
			a := AddM{Realm: rapid.SampledFrom([]string{"EXAMPLE.COM", "EXAMPLE.COM", "EXAMPLE.COMX", "example.com", "A"}).Draw(t, "add-realm"),
				TS: drawTS(t, true), KVNO: rapid.SampledFrom([]uint8{0, 1, 1, 2, 2, 3, 255}).Draw(t, "add-kvno")}
			if len(names) > 0 && rapid.Bool().Draw(t, "same-name") {
				a.Name = rapid.SampledFrom(names).Draw(t, "add-name")
			} else {
				nc := rapid.IntRange(1, 3).Draw(t, "add-ncomps")
				cs := []string{}
				for j := 0; j < nc; j++ {
					cs = append(cs, rapid.SampledFrom([]string{"HTTP", "host.example.com", "host", "http", "user1", "admin", "", "ü", "sp ace"}).Draw(t, "add-comp"))
				}
				a.Name = strings.Join(cs, "/")
				names = append(names, a.Name)
			}
			a.Password = rapid.SampledFrom([]string{"password", "hello123", "p", "pässwörd", "пароль€", "a much longer pass phrase, with punctuation!"}).Draw(t, "password")
			a.EType = rapid.SampledFrom([]int32{23, 23, 23, 16, 16, 17, 17, 18, 18, 19, 20, 1, 3, 24, 99, -1}).Draw(t, "add-etype")
			if supported(a.EType) {
				labels = append(labels, fmt.Sprintf("add-etype%d", a.EType))
			} else {
				labels = append(labels, "add-etype:unsupported")
			}
			c.Adds = append(c.Adds, a)
		}
		p, err := prepare(c)
		if err != nil {
			r.Inconclusive("generator: %v", err)
			t.Fatalf("harness: %v", err)
		}
		for _, e := range p.want[p.nfile:] {
			pl.realms = append(pl.realms, BS(e.Realm))
			pl.princs = append(pl.princs, bss(e.Components))
			pl.etypes = append(pl.etypes, e.KeyType)
		}
		if len(pl.etypes) == 0 {
			pl.etypes = []uint16{18}
		}
		for i := 0; i < 6; i++ {
			c.Lookups = append(c.Lookups, drawLookup(t, p.want, pl))
		}
		judge("built", c, t, labels...)
	})

	enumerate(r, func(check string, idx int, c Case, labels ...string) { judgeAt(check, idx, c, nil, labels...) }, func() {
		keys := []string{}
		for k := range enumFails {
			keys = append(keys, k)
		}
		sortStrings(keys)
		for _, k := range keys {
			f := enumFails[k]
			r.Violation(f.check, f.c, f.v)
		}
		enumFails = map[string]enumFail{}
	})
	if useJDK {
		jdkCrossCheck(r)
	}
}

type enumFail struct {
	idx   int
	check string
	c     Case
	v     evid.Verdict
}

func hostOrder() string {
	var b [2]byte
	binary.NativeEndian.PutUint16(b[:], 1)
	if b[0] == 1 {
		return "little-endian"
	}
	return "big-endian"
}

func sortStrings(s []string) {
	for i := 1; i < len(s); i++ {
		for j := i; j > 0 && s[j] < s[j-1]; j-- {
			s[j], s[j-1] = s[j-1], s[j]
		}
	}
}
