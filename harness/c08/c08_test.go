// C08 — passwords, salts and parameters derive exactly the RFC-defined keys.
package c08

import (
	"bytes"
	"encoding/hex"
	"fmt"
	"sort"
	"strconv"
	"strings"
	"sync"
	"testing"
	"time"

	"github.com/jcmturner/gokrb5/v8/crypto"
	"github.com/jcmturner/gokrb5/v8/crypto/rfc3961"
	"github.com/jcmturner/gokrb5/v8/crypto/rfc8009"
	"github.com/jcmturner/gokrb5/v8/kadmin"
	"github.com/jcmturner/gokrb5/v8/keytab"
	"github.com/jcmturner/gokrb5/v8/messages"
	"github.com/jcmturner/gokrb5/v8/types"
	"pgregory.net/rapid"

	"verif/harness/evid"
	"verif/harness/kgen"
	"verif/harness/ref/der"
	ref "verif/harness/ref/krbcrypto"
	"verif/harness/refcheck"
)

// Hint is one PA-data element offered by a KDC.
type Hint struct {
	Type   int    `json:"type"`              // 3 PA-PW-SALT, 11 PA-ETYPE-INFO, 19 PA-ETYPE-INFO2
	Salt   string `json:"salt"`              // hex
	Params string `json:"params"`            // hex, ETYPE-INFO2 only, "" = absent
	NoSalt bool   `json:"no_salt,omitempty"` // ETYPE-INFO / ETYPE-INFO2 entry without the optional salt field: the default salt applies
	Empty  bool   `json:"empty,omitempty"`   // ETYPE-INFO / ETYPE-INFO2 whose sequence has no entry at all (kind padata-order only)
	EType  int32  `json:"etype,omitempty"`   // ETYPE-INFO / ETYPE-INFO2: the entry names this etype instead of the case's (kind padata-order only)
}

// Case covers all sub-checks of C08.
type Case struct {
	Kind     string `json:"kind"` // s2k nfold dk kdf rtk padata genkey
	EType    int32  `json:"etype,omitempty"`
	Password string `json:"password,omitempty"` // hex of UTF-8
	Salt     string `json:"salt,omitempty"`     // hex
	Params   string `json:"params,omitempty"`   // literal s2kparams argument; "default" = the etype's default
	In       string `json:"in,omitempty"`       // hex: n-fold input | key | random bits
	N        int    `json:"n,omitempty"`        // n-fold output bits | kdf output bits
	Const    string `json:"const,omitempty"`    // hex: derivation constant / label
	Context  string `json:"context,omitempty"`  // hex
	Hints    []Hint `json:"hints,omitempty"`
	Realm    string `json:"realm,omitempty"`
	CName    string `json:"cname,omitempty"` // slash-separated
}

func unhex(s string) []byte { b, _ := hex.DecodeString(s); return b }

func pwClass(pw string) string {
	if pw == "" {
		return "pw:empty"
	}
	max := rune(0)
	for _, r := range pw {
		if r > max {
			max = r
		}
	}
	switch {
	case max < 0x80:
		return "pw:ascii"
	case max < 0x100:
		return "pw:latin1"
	case max < 0x10000:
		return "pw:bmp"
	}
	return "pw:supplementary"
}

// Eval judges one Case.
func Eval(c Case) evid.Verdict {
	return evid.SafeEval(func() evid.Verdict {
		switch c.Kind {
		case "s2k":
			return evalS2K(c)
		case "nfold":
			in := unhex(c.In)
			got := rfc3961.Nfold(in, c.N)
			want := ref.NFold(in, c.N)
			if !bytes.Equal(got, want) {
				return evid.Fail("nfold", "%d-fold(%x) = %x, RFC 3961 value %x", c.N, in, got, want)
			}
		case "dk":
			et, _ := crypto.GetEtype(c.EType)
			key, cst := unhex(c.In), unhex(c.Const)
			wr, err := ref.DR(c.EType, key, cst)
			if err != nil {
				return evid.Fail("harness", "ref DR: %v", err)
			}
			wk := ref.RandomToKey(c.EType, wr)
			gr, err := et.DeriveRandom(key, cst)
			if err != nil || !bytes.Equal(gr, wr) {
				return evid.Fail(fmt.Sprintf("dr:etype%d", c.EType), "DR(%x,%x) = %x (%v), RFC value %x", key, cst, gr, err, wr)
			}
			gk, err := et.DeriveKey(key, cst)
			if err != nil || !bytes.Equal(gk, wk) {
				return evid.Fail(fmt.Sprintf("dk:etype%d", c.EType), "DK(%x,%x) = %x (%v), RFC value %x", key, cst, gk, err, wk)
			}
		case "kdf":
			et, _ := crypto.GetEtype(c.EType)
			key, label, ctx := unhex(c.In), unhex(c.Const), unhex(c.Context)
			want := ref.KDFHMACSHA2(et.GetHashFunc(), key, label, ctx, c.N)
			got := rfc8009.KDF_HMAC_SHA2(key, label, ctx, c.N, et)
			if !bytes.Equal(got, want) {
				return evid.Fail(fmt.Sprintf("kdf:etype%d", c.EType), "KDF-HMAC-SHA2(%x,%x,%x,%d) = %x, RFC 8009 value %x", key, label, ctx, c.N, got, want)
			}
		case "kdflabel":
			// EType.DeriveKey on the RFC-defined labels
			et, _ := crypto.GetEtype(c.EType)
			key, label := unhex(c.In), unhex(c.Const)
			var want []byte
			if string(label) == "kerberos" {
				want = ref.KDFHMACSHA2(et.GetHashFunc(), key, label, nil, ref.KeyLen(c.EType)*8)
			} else {
				u := uint32(label[0])<<24 | uint32(label[1])<<16 | uint32(label[2])<<8 | uint32(label[3])
				want, _ = ref.DeriveUsageKey(c.EType, key, u, label[4])
			}
			got, err := et.DeriveKey(key, label)
			if err != nil || !bytes.Equal(got, want) {
				return evid.Fail(fmt.Sprintf("kdflabel:etype%d:%02x", c.EType, label[len(label)-1]), "DeriveKey(%x, label %x) = %x (%v), RFC 8009 value %x", key, label, got, err, want)
			}
		case "rtk":
			et, _ := crypto.GetEtype(ref.DES3)
			in := unhex(c.In)
			got := et.RandomToKey(append([]byte{}, in...))
			want := ref.DES3RandomToKey(in)
			if !bytes.Equal(got, want) {
				return evid.Fail("des3-random-to-key", "random-to-key(%x) = %x, RFC 3961 value %x", in, got, want)
			}
		case "padata", "padata-order":
			return evalPAData(c)
		case "padata-client":
			return evalPAClient(c)
		case "genkey":
			return evalGenKey(c)
		default:
			return evid.Fail("harness", "bad kind %q", c.Kind)
		}
		return evid.Pass()
	})
}

func evalS2K(c Case) evid.Verdict {
	et, err := crypto.GetEtype(c.EType)
	if err != nil {
		return evid.Fail("harness", "GetEtype: %v", err)
	}
	pw, salt := string(unhex(c.Password)), string(unhex(c.Salt))
	arg := c.Params
	var rp []byte
	malformed := false
	if arg == "default" {
		arg = et.GetDefaultStringToKeyParams()
	} else {
		b, herr := hex.DecodeString(arg)
		if herr != nil {
			malformed = true
		}
		rp = b
		if rp == nil {
			rp = []byte{}
		}
		if c.EType == ref.DES3 && arg == "" {
			rp = nil
		}
	}
	var want []byte
	var werr error
	if malformed {
		werr = ref.ErrBadParams
	} else {
		want, werr = ref.StringToKey(c.EType, pw, salt, rp)
	}
	got, gerr := et.StringToKey(pw, salt, arg)
	sig := fmt.Sprintf("s2k:etype%d:%s", c.EType, pwClass(pw))
	if werr != nil {
		if gerr == nil {
			return evid.Fail(fmt.Sprintf("s2k-params:etype%d", c.EType), "malformed s2kparams %q accepted, key %x", c.Params, got)
		}
		return evid.Pass()
	}
	if gerr != nil {
		return evid.Fail(sig, "StringToKey(%q, salt %x, params %q) failed: %v; RFC key %x", pw, salt, arg, gerr, want)
	}
	if !bytes.Equal(got, want) {
		return evid.Fail(sig, "StringToKey(%q, salt %x, params %q) = %x, RFC key %x", pw, salt, arg, got, want)
	}
	return evid.Pass()
}

// otherPATypes are PA-DATA types that carry no string-to-key hint (PA-ENC-TIMESTAMP, PA-PK-AS-REQ/REP, PA-FX-COOKIE,
// PA-FX-FAST, PA-ENCRYPTED-CHALLENGE, PA-PAC-OPTIONS, PA-TGS-REQ, one unassigned number).
var otherPATypes = []int{2, 16, 17, 133, 136, 138, 167, 1, 4242}

// encodeHints renders the hints as the PA-DATA sequence a KDC would send.
func encodeHints(caseET int32, hints []Hint) types.PADataSequence {
	var pas types.PADataSequence
	for _, h := range hints {
		et := caseET
		if h.EType != 0 {
			et = h.EType
		}
		salt := unhex(h.Salt)
		var val []byte
		switch h.Type {
		case 3:
			val = salt
		case 11:
			e := der.M{"etype": int64(et), "salt": salt}
			if h.NoSalt {
				delete(e, "salt")
			}
			val = der.ETypeInfo.MustEncode([]any{e})
			if h.Empty {
				val = der.ETypeInfo.MustEncode([]any{})
			}
		default:
			val = salt // an element of another kind (timestamp, FAST, PKINIT, cookie ...): no hint at all
		case 19:
			e := der.M{"etype": int64(et), "salt": string(salt)}
			if h.NoSalt {
				delete(e, "salt")
			}
			if h.Params != "" {
				e["s2kparams"] = unhex(h.Params)
			}
			val = der.ETypeInfo2.MustEncode([]any{e})
			if h.Empty {
				val = der.ETypeInfo2.MustEncode([]any{})
			}
		}
		pas = append(pas, types.PAData{PADataType: int32(h.Type), PADataValue: val})
	}
	return pas
}

// expectedKey is the key RFC 4120 5.2.7.5 selects: ETYPE-INFO2 over ETYPE-INFO over PW-SALT, whatever their order. An
// element without entries says nothing; emptyClaims selects the other reading, in which its presence alone outranks
// the lower kinds (and the default salt applies).
func expectedKey(c Case, hints []Hint, emptyClaims bool) (want []byte, best int, salt string, params []byte, err error) {
	best = -1
	var chosen Hint
	for _, h := range hints {
		if h.Empty && !emptyClaims {
			continue
		}
		if (h.Type == 3 || h.Type == 11 || h.Type == 19) && h.Type > best {
			best, chosen = h.Type, h
		}
	}
	salt = c.Realm + strings.Join(strings.Split(c.CName, "/"), "")
	if best >= 0 && !chosen.Empty {
		if !chosen.NoSalt {
			salt = string(unhex(chosen.Salt))
		}
		if chosen.Type == 19 && chosen.Params != "" {
			params = unhex(chosen.Params)
		}
	}
	et := c.EType
	if best >= 0 && chosen.EType != 0 {
		et = chosen.EType // the winning element names the etype together with the salt and the parameters
	}
	want, err = ref.StringToKey(et, string(unhex(c.Password)), salt, params)
	return
}

func evalPAData(c Case) evid.Verdict {
	pw := string(unhex(c.Password))
	cname := types.PrincipalName{NameType: 1, NameString: strings.Split(c.CName, "/")}
	if c.Kind == "padata-order" {
		return evalPAOrder(c, pw, cname)
	}
	for _, h := range c.Hints {
		if h.Empty || h.EType != 0 {
			return evid.Fail("harness", "elements without entries or naming another etype belong to kind padata-order")
		}
	}
	pas := encodeHints(c.EType, c.Hints)
	want, best, salt, params, err := expectedKey(c, c.Hints, false)
	if err != nil {
		return evid.Fail("harness", "ref s2k: %v", err)
	}
	key, _, err := crypto.GetKeyFromPassword(pw, cname, c.Realm, c.EType, pas)
	order := []string{}
	for _, h := range c.Hints {
		order = append(order, fmt.Sprint(h.Type))
	}
	sig := "pa-precedence"
	if len(c.Hints) <= 1 {
		sig = fmt.Sprintf("pa-single:%s", strings.Join(order, ","))
	}
	if err != nil {
		return evid.Fail(sig, "GetKeyFromPassword with hints [%s] failed: %v", strings.Join(order, ","), err)
	}
	if key.KeyType != c.EType || !bytes.Equal(key.KeyValue, want) {
		return evid.Fail(sig, "GetKeyFromPassword with hints in order [%s] gives key %x (type %d); RFC 4120 5.2.7.5 precedence selects hint %d, salt %q, params %x -> key %x",
			strings.Join(order, ","), key.KeyValue, key.KeyType, best, salt, params, want)
	}
	return evid.Pass()
}

// evalPAOrder: hint sets that include an ETYPE-INFO / ETYPE-INFO2 element without entries. What such an element means is
// not spelled out (it says nothing, or its presence outranks the lower kinds), so either key is admissible - but the
// property's "regardless of their order" is not negotiable: every order of the same elements must give the same key.
func evalPAOrder(c Case, pw string, cname types.PrincipalName) evid.Verdict {
	wa, _, _, _, err := expectedKey(c, c.Hints, false)
	if err != nil {
		return evid.Fail("harness", "ref s2k: %v", err)
	}
	wb, _, _, _, err := expectedKey(c, c.Hints, true)
	if err != nil {
		return evid.Fail("harness", "ref s2k: %v", err)
	}
	if len(c.Hints) > 4 {
		return evid.Fail("harness", "at most four elements")
	}
	var first []byte
	var firstOrder string
	var verdict evid.Verdict
	ok := true
	permute(len(c.Hints), func(idx []int) {
		if !ok {
			return
		}
		hs := make([]Hint, len(idx))
		names := make([]string, len(idx))
		for i, j := range idx {
			hs[i] = c.Hints[j]
			names[i] = fmt.Sprint(hs[i].Type)
			if hs[i].Empty {
				names[i] += "(no entries)"
			}
			if hs[i].EType != 0 {
				names[i] += fmt.Sprintf("(etype %d)", hs[i].EType)
			}
		}
		order := strings.Join(names, ",")
		key, _, err := crypto.GetKeyFromPassword(pw, cname, c.Realm, c.EType, encodeHints(c.EType, hs))
		switch {
		case err != nil:
			// refusing a set with an element without entries is fine, as long as every order is refused
			key.KeyValue = []byte("error")
		case !bytes.Equal(key.KeyValue, wa) && !bytes.Equal(key.KeyValue, wb):
			ok, verdict = false, evid.Fail("pa-precedence:odd-element", "GetKeyFromPassword with elements in order [%s] gives key %x: neither the key the highest-ranking element with entries selects (its etype, salt and parameters: %x) nor the key with the elements without entries outranking the lower kinds (%x)", order, key.KeyValue, wa, wb)
			return
		}
		if first == nil {
			first, firstOrder = key.KeyValue, order
		} else if !bytes.Equal(first, key.KeyValue) {
			ok, verdict = false, evid.Fail("pa-order-dependent", "the same PA-DATA elements give different keys in different orders: [%s] -> %x, [%s] -> %x", firstOrder, first, order, key.KeyValue)
		}
	})
	if !ok {
		return verdict
	}
	return evid.Pass()
}

// permute calls f with every permutation of 0..n-1.
func permute(n int, f func([]int)) {
	idx := make([]int, n)
	for i := range idx {
		idx[i] = i
	}
	var rec func(k int)
	rec = func(k int) {
		if k == n {
			f(append([]int{}, idx...))
			return
		}
		for i := k; i < n; i++ {
			idx[k], idx[i] = idx[i], idx[k]
			rec(k + 1)
			idx[k], idx[i] = idx[i], idx[k]
		}
	}
	rec(0)
}

// cheapS2K reports whether a string-to-key case costs little enough to be repeated in the concurrent tier.
func cheapS2K(c Case) bool {
	switch c.EType {
	case ref.DES3, ref.RC4:
		return true
	}
	if len(c.Params) != 8 {
		return false
	}
	n, err := strconv.ParseUint(c.Params, 16, 32)
	return err == nil && n > 0 && n <= 64
}

func evalGenKey(c Case) evid.Verdict {
	et, err := crypto.GetEtype(c.EType)
	if err != nil {
		return evid.Fail("harness", "GetEtype: %v", err)
	}
	sig := fmt.Sprintf("genkey:etype%d", c.EType)
	plain := unhex(c.In)
	try := func(what string, k types.EncryptionKey) evid.Verdict {
		if k.KeyType != c.EType {
			return evid.Fail(sig, "%s: key type %d, want %d", what, k.KeyType, c.EType)
		}
		if len(k.KeyValue) != ref.KeyLen(c.EType) {
			return evid.Fail(sig, "%s: generated key has %d bytes, etype %d requires %d", what, len(k.KeyValue), c.EType, ref.KeyLen(c.EType))
		}
		ed, err := crypto.GetEncryptedData(plain, k, 11, 0)
		if err != nil {
			return evid.Fail(sig, "%s: generated key cannot encrypt: %v", what, err)
		}
		pt, err := crypto.DecryptEncPart(ed, k, 11)
		if err != nil || !bytes.HasPrefix(pt, plain) {
			return evid.Fail(sig, "%s: generated key cannot decrypt its own message: %v", what, err)
		}
		if _, _, err := ref.Decrypt(c.EType, k.KeyValue, 11, ed.Cipher); err != nil {
			return evid.Fail(sig, "%s: reference cannot decrypt a message under the generated key: %v", what, err)
		}
		if _, err := et.GetChecksumHash(k.KeyValue, plain, 10); err != nil {
			return evid.Fail(sig, "%s: generated key cannot checksum: %v", what, err)
		}
		return evid.Pass()
	}
	k, err := types.GenerateEncryptionKey(et)
	if err != nil {
		return evid.Fail(sig, "GenerateEncryptionKey: %v", err)
	}
	if v := try("GenerateEncryptionKey", k); !v.OK {
		return v
	}
	var a types.Authenticator
	if err := a.GenerateSeqNumberAndSubKey(et.GetETypeID(), et.GetKeyByteSize()); err != nil {
		return evid.Fail(sig, "GenerateSeqNumberAndSubKey: %v", err)
	}
	if v := try("GenerateSeqNumberAndSubKey(GetKeyByteSize)", a.SubKey); !v.OK {
		return v
	}
	k2, _ := types.GenerateEncryptionKey(et)
	if bytes.Equal(k.KeyValue, k2.KeyValue) {
		return evid.Fail(sig, "two generated keys are identical")
	}
	// the two places where the library itself generates keys: the session key of messages.NewTicket and the subkey
	// of a change-password request
	kt := keytab.New()
	if err := kt.AddEntry("HTTP/svc.example.com", "EXAMPLE.COM", "c08-service-password", time.Unix(1700000000, 0), 1, c.EType); err != nil {
		return evid.Fail("harness", "keytab.AddEntry: %v", err)
	}
	now := time.Now().UTC()
	tkt, sk, err := messages.NewTicket(types.NewPrincipalName(1, "alice"), "EXAMPLE.COM", types.NewPrincipalName(2, "HTTP/svc.example.com"), "EXAMPLE.COM",
		types.NewKrbFlags(), kt, c.EType, 1, now, now, now.Add(time.Hour), now.Add(2*time.Hour))
	if err != nil {
		return evid.Fail(sig, "messages.NewTicket(etype %d): %v", c.EType, err)
	}
	if v := try("session key of messages.NewTicket", sk); !v.OK {
		return v
	}
	req, sub, err := kadmin.ChangePasswdMsg(types.NewPrincipalName(1, "alice"), "EXAMPLE.COM", "new-password-"+c.In, tkt, sk)
	if err != nil {
		return evid.Fail(sig+":changepw", "kadmin.ChangePasswdMsg with a session key of etype %d: %v", c.EType, err)
	}
	if v := try("subkey of kadmin.ChangePasswdMsg", sub); !v.OK {
		v.Sig += ":changepw"
		return v
	}
	if _, _, err := ref.Decrypt(c.EType, sub.KeyValue, 13, req.KRBPriv.EncPart.Cipher); err != nil {
		return evid.Fail(sig+":changepw", "the KRB-PRIV of the change-password request does not decrypt under the returned subkey (usage 13): %v", err)
	}
	return evid.Pass()
}

// ---------------------------------------------------------------------------------------------

func drawPassword(t *rapid.T) string {
	class := rapid.SampledFrom([]string{"empty", "ascii", "latin1", "bmp", "supp", "mixed", "long"}).Draw(t, "pwclass")
	ascii := rapid.RuneFrom(nil, asciiTab)
	latin := rapid.RuneFrom(nil, latinTab)
	bmp := rapid.RuneFrom(nil, bmpTab)
	supp := rapid.RuneFrom(nil, suppTab)
	mk := func(g *rapid.Generator[rune], min, max int) string {
		return string(rapid.SliceOfN(g, min, max).Draw(t, "pw"))
	}
	switch class {
	case "empty":
		return ""
	case "ascii":
		return mk(ascii, 1, 24)
	case "latin1":
		return mk(rapid.OneOf(ascii, latin, latin), 1, 16)
	case "bmp":
		return mk(rapid.OneOf(ascii, bmp, bmp), 1, 16)
	case "supp":
		return mk(rapid.OneOf(ascii, supp, supp), 1, 12)
	case "mixed":
		return mk(rapid.OneOf(ascii, latin, bmp, supp), 1, 20)
	}
	return mk(rapid.OneOf(ascii, ascii, latin, bmp, supp), 64, 200)
}

func drawSalt(t *rapid.T) []byte {
	switch rapid.IntRange(0, 3).Draw(t, "saltclass") {
	case 0:
		return []byte{}
	case 1:
		return []byte(rapid.StringMatching(`[A-Z]{1,12}\.[A-Z]{2,5}[a-z]{1,10}`).Draw(t, "salt"))
	case 2:
		return []byte(string(rapid.SliceOfN(rapid.Rune(), 1, 16).Draw(t, "salt")))
	}
	return rapid.SliceOfN(rapid.Byte(), 1, 40).Draw(t, "salt")
}

func drawIter(t *rapid.T) uint32 {
	switch rapid.IntRange(0, 9).Draw(t, "iterclass") {
	case 0, 1, 2:
		return uint32(rapid.IntRange(1, 8).Draw(t, "iter"))
	case 3, 4, 5:
		return uint32(rapid.IntRange(9, 300).Draw(t, "iter"))
	case 6, 7:
		return uint32(rapid.IntRange(301, 5000).Draw(t, "iter"))
	case 8:
		return rapid.SampledFrom([]uint32{255, 256, 257, 4095, 4096, 4097}).Draw(t, "iter")
	}
	return rapid.SampledFrom([]uint32{0x8000, 0x10000}).Draw(t, "iter")
}

func TestProp(t *testing.T) {
	r := evid.Start(t, "C08", "exploration")
	for _, k := range []string{"s2k", "nfold", "derive", "rtk", "padata", "padata-order", "padata-client", "genkey", "enum"} {
		evid.Reg(r, k, Eval)
	}
	if r.Replay() {
		return
	}
	defer r.Finish()
	r.Regress()
	if err := refcheck.All(); err != nil {
		r.Inconclusive("reference self-test failed: %v", err)
		return
	}
	r.Assume("ref/krbcrypto validated against RFC 3961 A.1/A.3/A.4, RFC 3962 B, RFC 8009 A vectors and two known NT hashes at start-up; iteration parameter 0 (=2^32) excluded as not computable")
	var pool []Case // cases that held when evaluated one at a time: re-evaluated side by side at the end
	var poolMu sync.Mutex
	judge := func(check string, c Case, nt string, rt *rapid.T, labels ...string) {
		poolMu.Lock()
		if len(pool) < 40000 && (c.Kind != "s2k" || cheapS2K(c)) {
			pool = append(pool, c)
		}
		poolMu.Unlock()
		r.Count(nt, append(labels, "kind:"+c.Kind)...)
		r.Sample(c.Kind+"/"+strings.Join(labels, ","), c)
		v := Eval(c)
		if rt != nil {
			if r.Judge(check, c, v) {
				rt.Fatalf("violation")
			}
		} else {
			r.Violation(check, c, v)
		}
	}

	r.Rule("s2k: etype x password class {empty, ASCII, Latin-1, BMP, supplementary, mixed, long<=200 runes} x salt {empty, realm+name, UTF-8, raw bytes} x params {default, iterations 1..5000 log-biased, boundary counts, malformed: wrong length/non-hex, non-empty for des3}; non-trivial = non-ASCII password or non-default params")
	r.Rapid("s2k", r.N(1200, 12000), func(t *rapid.T) {
		et := kgen.EType(t)
		pw := drawPassword(t)
		c := Case{Kind: "s2k", EType: et, Password: hex.EncodeToString([]byte(pw)), Salt: hex.EncodeToString(drawSalt(t)), Params: "default"}
		pclass := "params:default"
		if et == ref.DES3 && c.Password == "" && c.Salt == "" {
			// n-fold of the empty string is undefined in RFC 3961 (k = 0); outside the domain
			t.Skip("des3 string-to-key of empty password and empty salt")
		}
		switch et {
		case ref.AES128SHA1, ref.AES256SHA1, ref.AES128SHA2, ref.AES256SHA2:
			switch rapid.IntRange(0, 9).Draw(t, "pmode") {
			case 0:
				// default iteration count (4096 / 32768)
			case 1:
				pclass = "params:malformed"
				c.Params = rapid.SampledFrom([]string{"", "00", "000010", "0000001000", "0000100g", "zzzzzzzz", "0000 100", "000001000"}).Draw(t, "badparams")
			default:
				pclass = "params:explicit"
				c.Params = fmt.Sprintf("%08x", drawIter(t))
			}
		case ref.DES3:
			if rapid.IntRange(0, 5).Draw(t, "pmode") == 0 {
				pclass = "params:malformed"
				c.Params = rapid.SampledFrom([]string{"00", "00001000", "x"}).Draw(t, "badparams")
			}
		}
		nt := ""
		if pwClass(pw) != "pw:ascii" && pwClass(pw) != "pw:empty" || pclass != "params:default" {
			nt = fmt.Sprintf("s2k|%d|%s|%s|%s", et, c.Password, c.Salt, c.Params)
		}
		judge("s2k", c, nt, t, fmt.Sprintf("etype%d", et), pwClass(pw), pclass)
	})

	r.Rule("derive: DR/DK for etypes 16,17,18 with constants of every length 1..16; KDF-HMAC-SHA2 with arbitrary label/context/length for 19,20; EType.DeriveKey on the RFC 8009 labels (usage|55/99/AA, \"kerberos\")")
	r.Rapid("derive", r.N(3000, 20000), func(t *rapid.T) {
		switch rapid.IntRange(0, 2).Draw(t, "which") {
		case 0:
			et := rapid.SampledFrom([]int32{ref.DES3, ref.AES128SHA1, ref.AES256SHA1}).Draw(t, "etype")
			n := rapid.IntRange(1, 16).Draw(t, "constlen")
			c := Case{Kind: "dk", EType: et, In: hex.EncodeToString(kgen.Key(t, et, "key")), Const: hex.EncodeToString(kgen.Bytes(t, "const", n))}
			judge("derive", c, fmt.Sprintf("dk|%d|%s|%s", et, c.In, c.Const), t, fmt.Sprintf("etype%d", et), fmt.Sprintf("constlen%d", n))
		case 1:
			et := rapid.SampledFrom([]int32{ref.AES128SHA2, ref.AES256SHA2}).Draw(t, "etype")
			max := 32
			if et == ref.AES256SHA2 {
				max = 48
			}
			c := Case{Kind: "kdf", EType: et, In: hex.EncodeToString(kgen.Bytes(t, "key", rapid.IntRange(1, 64).Draw(t, "keylen"))),
				Const:   hex.EncodeToString(rapid.SliceOfN(rapid.Byte(), 0, 24).Draw(t, "label")),
				Context: hex.EncodeToString(rapid.SliceOfN(rapid.Byte(), 0, 24).Draw(t, "context")),
				N:       8 * rapid.IntRange(1, max).Draw(t, "outbytes")}
			judge("derive", c, fmt.Sprintf("kdf|%d|%s|%s|%s|%d", et, c.In, c.Const, c.Context, c.N), t, fmt.Sprintf("etype%d", et))
		case 2:
			et := rapid.SampledFrom([]int32{ref.AES128SHA2, ref.AES256SHA2}).Draw(t, "etype")
			var label []byte
			if rapid.IntRange(0, 4).Draw(t, "lab") == 0 {
				label = []byte("kerberos")
			} else {
				u := kgen.Usage(t)
				label = []byte{byte(u >> 24), byte(u >> 16), byte(u >> 8), byte(u), rapid.SampledFrom([]byte{0x55, 0x99, 0xAA}).Draw(t, "tail")}
			}
			c := Case{Kind: "kdflabel", EType: et, In: hex.EncodeToString(kgen.Key(t, et, "key")), Const: hex.EncodeToString(label)}
			judge("derive", c, fmt.Sprintf("kdflabel|%d|%s|%s", et, c.In, c.Const), t, fmt.Sprintf("etype%d", et), fmt.Sprintf("label-tail-%02x", label[len(label)-1]))
		}
	})

	r.Rule("nfold: every input length 1..64 bytes x output sizes {56,64,128,168,192,256} bits (quick: each cell once with seeded content; thorough: 8 contents per cell); exhaustive over (length,size)")
	reps := r.N(1, 8)
	for n := 1; n <= 64; n++ {
		for _, bits := range []int{56, 64, 128, 168, 192, 256} {
			for k := 0; k < reps; k++ {
				c := Case{Kind: "nfold", In: hex.EncodeToString(kgen.DetBytes(r.Seed(), fmt.Sprintf("nf/%d/%d/%d", n, bits, k), n)), N: bits}
				judge("nfold", c, fmt.Sprintf("nfold|%d|%d|%d", n, bits, k), nil, fmt.Sprintf("nfold-out%d", bits))
			}
		}
	}
	r.Exhaustive("n-fold (input length 1..64) x (output size in 56,64,128,168,192,256)")

	r.Rule("rtk: DES3 random-to-key on random 21-byte strings plus constructed pre-images of all 16 weak/semi-weak DES keys in each third (weak-key correction reached by construction)")
	for wi, w := range ref.DESWeakKeys() {
		pre := make([]byte, 7)
		for j := 0; j < 7; j++ {
			pre[j] = (w[j] & 0xFE) | ((w[7] >> uint(j+1)) & 1)
		}
		for third := 0; third < 3; third++ {
			in := kgen.DetBytes(r.Seed(), fmt.Sprintf("rtk/%d/%d", wi, third), 21)
			copy(in[third*7:], pre)
			c := Case{Kind: "rtk", In: hex.EncodeToString(in)}
			// confirm the construction reaches the correction branch in the reference
			out := ref.DES3RandomToKey(in)
			if out[third*8+7] != w[7]^0xF0 {
				r.Inconclusive("weak-key pre-image construction failed for key %d", wi)
			}
			judge("rtk", c, fmt.Sprintf("rtk|weak|%d|%d", wi, third), nil, "rtk:weak-preimage")
		}
	}
	r.Rapid("rtk", r.N(1500, 10000), func(t *rapid.T) {
		c := Case{Kind: "rtk", In: hex.EncodeToString(kgen.Bytes(t, "random", 21))}
		judge("rtk", c, "rtk|"+c.In, t, "rtk:random")
	})

	r.Rule("padata: every subset and permutation of {PA-PW-SALT, PA-ETYPE-INFO, PA-ETYPE-INFO2} (16 sequences) with pairwise different salts, each ETYPE-INFO / ETYPE-INFO2 entry with or without its optional salt field (absent = default salt; 45 sequences in all), single matching-etype entries, optional s2kparams, each sequence also with one PA-DATA element of another kind (type 1, 2, 16, 17, 133, 136, 138, 167, 4242) inserted at every position; non-trivial = >= 2 hints")
	perms := [][]int{{}, {3}, {11}, {19}, {3, 11}, {11, 3}, {3, 19}, {19, 3}, {11, 19}, {19, 11},
		{3, 11, 19}, {3, 19, 11}, {11, 3, 19}, {11, 19, 3}, {19, 3, 11}, {19, 11, 3}}
	type pj struct {
		et      int32
		perm    []int
		k       int
		noSalt  int // bit i set: the i-th hint (if an ETYPE-INFO or ETYPE-INFO2) carries no salt
		other   int // 0 = none; otherwise an element of this other PA-DATA type is inserted at position otherAt
		otherAt int
	}
	pjobs := []pj{}
	for _, et := range ref.ETypes {
		for _, p := range perms {
			for mask := 0; mask < 1<<len(p); mask++ {
				ok := true
				for i, ty := range p {
					if mask&(1<<i) != 0 && ty == 3 {
						ok = false // PA-PW-SALT is nothing but a salt
					}
				}
				if !ok {
					continue
				}
				for k := 0; k < r.N(1, 6); k++ {
					pjobs = append(pjobs, pj{et, p, k, mask, 0, 0})
					// the same among PA-DATA of other kinds (lower and higher type numbers, before and after the hints)
					for pos := 0; pos <= len(p); pos++ {
						ot := otherPATypes[(len(pjobs)+pos+k)%len(otherPATypes)]
						pjobs = append(pjobs, pj{et, p, k, mask, ot, pos})
					}
				}
			}
		}
	}
	evid.Parallel(len(pjobs), 16, func(i int) {
		j := pjobs[i]
		lbl := fmt.Sprintf("pa/%d/%v/%d/%d/%d/%d", j.et, j.perm, j.k, j.noSalt, j.other, j.otherAt)
		c := Case{Kind: "padata", EType: j.et, Realm: "EXAMPLE.COM", CName: "alice/admin",
			Password: hex.EncodeToString([]byte("pässwörd-" + hex.EncodeToString(kgen.DetBytes(r.Seed(), lbl, 3))))}
		if j.et == ref.RC4 {
			c.Password = hex.EncodeToString([]byte("password-" + hex.EncodeToString(kgen.DetBytes(r.Seed(), lbl, 3))))
		}
		for hi, ty := range j.perm {
			if j.other != 0 && j.otherAt == hi {
				c.Hints = append(c.Hints, Hint{Type: j.other, Salt: hex.EncodeToString(kgen.DetBytes(r.Seed(), lbl+"/o", 12))})
			}
			h := Hint{Type: ty, NoSalt: j.noSalt&(1<<hi) != 0, Salt: hex.EncodeToString([]byte(fmt.Sprintf("SALT%d-%x", ty, kgen.DetBytes(r.Seed(), lbl+"/s", 2))))}
			if ty == 19 && j.et != ref.DES3 && j.et != ref.RC4 && (j.k%2 == 0) {
				h.Params = fmt.Sprintf("%08x", 1+int(kgen.DetBytes(r.Seed(), lbl+"/p", 1)[0]))
			}
			c.Hints = append(c.Hints, h)
		}
		if j.other != 0 && j.otherAt == len(j.perm) {
			c.Hints = append(c.Hints, Hint{Type: j.other, Salt: hex.EncodeToString(kgen.DetBytes(r.Seed(), lbl+"/o", 12))})
		}
		nt := ""
		if len(j.perm) >= 2 || (j.other != 0 && len(j.perm) >= 1) {
			nt = "padata|" + lbl
		}
		saltless := "all-hints-carry-a-salt"
		if j.noSalt != 0 {
			saltless = "some-hint-without-salt"
		}
		judge("padata", c, nt, nil, fmt.Sprintf("hints%d", len(j.perm)), fmt.Sprintf("etype%d", j.et), saltless)
	})
	r.Exhaustive("PA-data: all 16 ordered subsets of the three hint types x salt present/absent per ETYPE-INFO(2) entry x six etypes")
	// order independence as such: sets that also hold an ETYPE-INFO / ETYPE-INFO2 element without any entry (what that means is
	// open, so two keys are admissible) and sets with two elements of the same kind are excluded; every order of one set
	// must give one key
	r.Rule("padata-order (enumerated): every non-empty subset of {PW-SALT, ETYPE-INFO, ETYPE-INFO2, ETYPE-INFO without entries, ETYPE-INFO2 without entries} with at most one element per PA-DATA type, differing salts, for every etype: all orders of the set are derived inside one case and must give the same key, which must be the key of the set without the empty elements or the key with them outranking the lower kinds")
	type oj struct {
		et   int32
		mask int
	}
	var ojobs []oj
	for _, et := range ref.ETypes {
		for mask := 1; mask < 32; mask++ {
			if (mask&2 != 0 && mask&8 != 0) || (mask&4 != 0 && mask&16 != 0) || mask&(8|16) == 0 {
				continue // one element per type; at least one element without entries (the rest is the check above)
			}
			ojobs = append(ojobs, oj{et, mask})
		}
	}
	evid.Parallel(len(ojobs), 16, func(i int) {
		j := ojobs[i]
		lbl := fmt.Sprintf("pao/%d/%d", j.et, j.mask)
		c := Case{Kind: "padata-order", EType: j.et, Realm: "EXAMPLE.COM", CName: "alice/admin", Password: hex.EncodeToString([]byte("password-" + hex.EncodeToString(kgen.DetBytes(r.Seed(), lbl, 3))))}
		for b, ty := range []int{3, 11, 19, 11, 19} {
			if j.mask&(1<<b) == 0 {
				continue
			}
			h := Hint{Type: ty, Empty: b >= 3, Salt: hex.EncodeToString([]byte(fmt.Sprintf("SALT%d-%x", ty, kgen.DetBytes(r.Seed(), lbl+"/s", 2))))}
			if ty == 19 && !h.Empty && j.et != ref.DES3 && j.et != ref.RC4 {
				h.Params = fmt.Sprintf("%08x", 1+int(kgen.DetBytes(r.Seed(), lbl+"/p", 1)[0]))
			}
			c.Hints = append(c.Hints, h)
		}
		judge("padata", c, "padata-order|"+lbl, nil, fmt.Sprintf("hints%d", len(c.Hints)), fmt.Sprintf("etype%d", j.et), "element-without-entries")
	})

	defer func() {
		// concurrent tier: the cases that held one at a time, evaluated 16 at once (shared state inside the library -
		// a hash object, a table, a memo - shows as a wrong value or a panic only now)
		r.Rule(fmt.Sprintf("concurrent: %d of the cases above (string-to-key with cheap parameters, DK, KDF, n-fold, random-to-key, PA-data) re-evaluated 16 at a time", len(pool)))
		evid.Parallel(len(pool), 16, func(i int) {
			v := Eval(pool[i])
			if !v.OK && v.Sig != "harness" {
				v.Sig = "concurrent:" + v.Sig
				v.Msg = "while 16 derivations ran at once (the same case held when run alone): " + v.Msg
			}
			r.Count("", "kind:concurrent-"+pool[i].Kind)
			r.Violation("s2k", pool[i], v)
		})
	}()
	// elements that name different etypes: the highest-ranking one decides etype, salt and parameters together, in every order
	r.Rule("padata-order (enumerated, continued): ETYPE-INFO naming etype a and ETYPE-INFO2 naming etype b for every ordered pair a != b of the six etypes, with and without a PW-SALT, requested etype a or b: every order gives the key ETYPE-INFO2 selects (etype b, its salt, its parameters or b's default)")
	type ej struct {
		a, b, req int32
		pw        bool
	}
	var ejobs []ej
	for _, a := range ref.ETypes {
		for _, b := range ref.ETypes {
			if a == b {
				continue
			}
			for _, req := range []int32{a, b} {
				for _, pw := range []bool{false, true} {
					if r.Quick() && (int(a)+2*int(b)+int(req)+len(ejobs)+int(r.Seed()))%3 != 0 {
						continue
					}
					ejobs = append(ejobs, ej{a, b, req, pw})
				}
			}
		}
	}
	evid.Parallel(len(ejobs), 16, func(i int) {
		j := ejobs[i]
		lbl := fmt.Sprintf("pae/%d/%d/%d/%v", j.a, j.b, j.req, j.pw)
		c := Case{Kind: "padata-order", EType: j.req, Realm: "EXAMPLE.COM", CName: "alice/admin", Password: hex.EncodeToString([]byte("password-" + hex.EncodeToString(kgen.DetBytes(r.Seed(), lbl, 3))))}
		c.Hints = []Hint{{Type: 11, EType: j.a, Salt: hex.EncodeToString([]byte("SALT11-" + lbl))}, {Type: 19, EType: j.b, Salt: hex.EncodeToString([]byte("SALT19-" + lbl))}}
		if i%2 == 0 && j.b != ref.DES3 && j.b != ref.RC4 {
			c.Hints[1].Params = fmt.Sprintf("%08x", 1+int(kgen.DetBytes(r.Seed(), lbl+"/p", 1)[0]))
		}
		if j.pw {
			c.Hints = append(c.Hints, Hint{Type: 3, Salt: hex.EncodeToString([]byte("SALT3-" + lbl))})
		}
		judge("padata", c, "padata-order|"+lbl, nil, fmt.Sprintf("hints%d", len(c.Hints)), fmt.Sprintf("etype%d", j.req), "elements-naming-different-etypes")
	})
	r.Rule("padata-client (enumerated): the precedence on the client's route: Client.Login over loopback against a simulated KDC that asks for pre-authentication with PA-ETYPE-INFO2 alone, or with a PA-ETYPE-INFO naming another etype and salt behind / in front of it, for every etype, default and non-default salt and iteration count: the login succeeds only if the encrypted timestamp was made from the PA-ETYPE-INFO2")
	pcs := paClientCases(r.Seed(), r.Thorough())
	evid.Parallel(len(pcs), 16, func(i int) {
		c := pcs[i]
		r.Count(fmt.Sprintf("padata-client|%d|%s|%d", c.EType, c.Params, c.N), "kind:padata-client", fmt.Sprintf("etype%d", c.EType), "legacy-info:"+c.Params)
		r.Sample("padata-client/"+c.Params, c)
		r.Violation("padata", c, Eval(c))
	})
	r.Rule("genkey: GenerateEncryptionKey, GenerateSeqNumberAndSubKey(GetKeyByteSize), the session key of messages.NewTicket and the subkey of kadmin.ChangePasswdMsg for every etype: RFC key length, usable for encrypt/decrypt/checksum, decryptable by the reference")
	for _, et := range ref.ETypes {
		for k := 0; k < r.N(8, 200); k++ {
			c := Case{Kind: "genkey", EType: et, In: hex.EncodeToString(kgen.DetBytes(r.Seed(), fmt.Sprintf("gk/%d/%d", et, k), k%40))}
			judge("genkey", c, fmt.Sprintf("genkey|%d|%d", et, k), nil, fmt.Sprintf("etype%d", et))
		}
	}
	_ = sort.Strings
}
