package c08

import (
	"fmt"
	"io"
	"log"

	"github.com/jcmturner/gokrb5/v8/client"
	"github.com/jcmturner/gokrb5/v8/config"

	"verif/harness/evid"
	ref "verif/harness/ref/krbcrypto"
	"verif/harness/sim/kdc"
)

var etypeNames = map[int32]string{16: "des3-cbc-sha1-kd", 17: "aes128-cts-hmac-sha1-96", 18: "aes256-cts-hmac-sha1-96",
	19: "aes128-cts-hmac-sha256-128", 20: "aes256-cts-hmac-sha384-192", 23: "rc4-hmac"}

// evalPAClient: the same precedence on the route an application actually takes. A simulated KDC asks for pre-authentication
// and sends its hints; Client.Login has to come back with a TGT, which it only does when the encrypted timestamp it sends
// next was made with the etype, salt and parameters of the element that takes precedence. Case.Params: "" (PA-ETYPE-INFO2
// only) | "after" | "before" (a PA-ETYPE-INFO naming another etype and salt behind / in front of the PA-ETYPE-INFO2);
// Case.Salt != "" gives the principal a non-default salt, Case.N > 0 a non-default iteration count.
func evalPAClient(c Case) evid.Verdict {
	w := kdc.NewWorld(uint64(c.N)*7919 + uint64(c.EType))
	r := w.AddRealm("EXAMPLE.COM", kdc.Policy{ETypes: []int32{c.EType}, TicketEType: c.EType, PreauthRequired: true, InfoSalt: true, LegacyInfo: c.Params})
	var salt *string
	if c.Salt != "" {
		s := string(unhex(c.Salt))
		salt = &s
	}
	iter := uint32(0)
	if c.N > 0 && c.EType != ref.DES3 && c.EType != ref.RC4 {
		iter = uint32(c.N)
	}
	pw := string(unhex(c.Password))
	r.AddClient("alice", pw, salt, iter)
	ip := kdc.UniqueIP()
	srv := kdc.NewServer(r, ip, 8891, kdc.Refuses, kdc.Answers, "k")
	if err := srv.Start(); err != nil {
		return evid.Fail("harness", "listen: %v", err)
	}
	defer srv.Stop()
	lim := 1
	cfg, err := config.NewFromString(kdc.ConfText(kdc.ConfOpts{DefaultRealm: "EXAMPLE.COM", ETypes: etypeNames[c.EType], NoAddresses: true, UDPPrefLimit: &lim, Extra: "  allow_weak_crypto = true\n"},
		map[string][]string{"EXAMPLE.COM": {ip + ":8891"}}))
	if err != nil {
		return evid.Fail("harness", "config: %v", err)
	}
	cl := client.NewWithPassword("alice", "EXAMPLE.COM", pw, cfg, client.DisablePAFXFAST(true), client.Logger(log.New(io.Discard, "", 0)))
	defer cl.Destroy()
	if err := cl.Login(); err != nil {
		probs := []string{}
		for _, s := range r.SnapshotSeen() {
			probs = append(probs, s.Problems...)
		}
		return evid.Fail("pa-client:login-failed:"+c.Params, "Client.Login fails against a KDC whose pre-authentication hints are PA-ETYPE-INFO2 (etype %d, the principal's salt and parameters)%s: %v; the KDC noted: %v",
			c.EType, map[string]string{"": "", "after": " followed by a PA-ETYPE-INFO naming another etype and salt", "before": " preceded by a PA-ETYPE-INFO naming another etype and salt"}[c.Params], err, probs)
	}
	return evid.Pass()
}

func paClientCases(seed uint64, thorough bool) []Case {
	var out []Case
	for ei, et := range ref.ETypes {
		for li, legacy := range []string{"", "after", "before"} {
			for k := 0; k < 2; k++ {
				c := Case{Kind: "padata-client", EType: et, Params: legacy, Password: fmt.Sprintf("%x", fmt.Sprintf("pw-%d-%d-%d", seed, ei, li)), N: k * (3 + ei + li)}
				if k == 1 {
					c.Salt = fmt.Sprintf("%x", fmt.Sprintf("Custom-Salt-%d", ei*3+li))
				}
				out = append(out, c)
			}
		}
	}
	return out
}
