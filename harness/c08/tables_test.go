package c08

import "unicode"

var (
	asciiTab = &unicode.RangeTable{R16: []unicode.Range16{{Lo: 0x20, Hi: 0x7e, Stride: 1}}, LatinOffset: 1}
	latinTab = &unicode.RangeTable{R16: []unicode.Range16{{Lo: 0xa0, Hi: 0xff, Stride: 1}}, LatinOffset: 1}
	bmpTab   = &unicode.RangeTable{R16: []unicode.Range16{{Lo: 0x100, Hi: 0xd7ff, Stride: 1}, {Lo: 0xe000, Hi: 0xfffd, Stride: 1}}}
	suppTab  = &unicode.RangeTable{R32: []unicode.Range32{{Lo: 0x10000, Hi: 0x10ffff, Stride: 1}}}
)
