package c18

import (
	"encoding/json"
	"os"
	"testing"
)

// TestDebugCase runs the case in the file named by C18_CASE and prints what was observed (development aid).
func TestDebugCase(t *testing.T) {
	p := os.Getenv("C18_CASE")
	if p == "" {
		t.Skip("C18_CASE not set")
	}
	b, err := os.ReadFile(p)
	if err != nil {
		t.Fatal(err)
	}
	var c Case
	if err := json.Unmarshal(b, &c); err != nil {
		t.Fatal(err)
	}
	v, o := Run(c)
	t.Logf("verdict ok=%v sig=%s\n%s\nobs=%+v", v.OK, v.Sig, v.Msg, o)
}
