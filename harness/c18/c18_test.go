// C18 — the SPNEGO HTTP client authenticates once, replays the body, and terminates.
package c18

import (
	"bytes"
	"context"
	"encoding/hex"
	"fmt"
	"io"
	"net"
	"net/http"
	"strconv"
	"strings"
	"testing"
	"time"

	"github.com/jcmturner/gokrb5/v8/client"
	"github.com/jcmturner/gokrb5/v8/config"
	"github.com/jcmturner/gokrb5/v8/keytab"
	"github.com/jcmturner/gokrb5/v8/spnego"
	"github.com/jcmturner/gokrb5/v8/test/testdata"
	"pgregory.net/rapid"

	"verif/harness/evid"
	"verif/harness/kgen"
	"verif/harness/mint"
	"verif/harness/ref/acceptor"
	"verif/harness/ref/keytabfmt"
	ref "verif/harness/ref/krbcrypto"
	"verif/harness/refcheck"
	"verif/harness/sim/httpsrv"
	"verif/harness/sim/kdc"
)

// Case is one server script and one request.
type Case struct {
	Prefix    []string `json:"prefix"`          // steps of the httpsrv alphabet
	Tail      string   `json:"tail"`            // answered to every request after the prefix
	Cycle     []string `json:"cycle,omitempty"` // when set, repeated for ever after the prefix instead of Tail
	Method    string   `json:"method"`
	BodyKind  string   `json:"body_kind"` // none (nil body) | bytes (length known, rewindable) | stream (opaque reader: chunked)
	BodySize  int      `json:"body_size"`
	SPN       string   `json:"spn"`                          // explicit | derived-ip | derived-localhost | derived-rooted (URL host "localhost.")
	TktEType  int32    `json:"ticket_etype"`                 // etype of the issued service ticket
	SessEType int32    `json:"session_etype"`                // etype of the client's keys and of the session keys
	Lazy      bool     `json:"lazy_login"`                   // Do is called on a client that has not logged in yet
	OwnCheck  bool     `json:"own_check_redirect,omitempty"` // the caller's http.Client brings a CheckRedirect of its own that lets every redirect pass (a logging / header-copying hook)
	Expect    bool     `json:"expect_continue,omitempty"`    // the caller sets "Expect: 100-continue" on the request (uploads)
	Via       string   `json:"via,omitempty"`                // "" / do: Client.Do; helper: Client.Get / Head / Post
	Seed      uint64   `json:"seed"`
}

// MaxRedirects is the client's documented redirect limit; Bound is the number of requests a single
// call may cause: every hop of the redirect chain may be challenged once and retried once, plus two.
const (
	MaxRedirects = 10
	Bound        = 2*(MaxRedirects+1) + 2
	explicitSPN  = "HTTP/web.example.com"
	realmName    = "EXAMPLE.COM"
	clientName   = "alice"
)

var etypeNames = map[int32]string{16: "des3-cbc-sha1-kd", 17: "aes128-cts-hmac-sha1-96", 18: "aes256-cts-hmac-sha1-96",
	19: "aes128-cts-hmac-sha256-128", 20: "aes256-cts-hmac-sha384-192", 23: "rc4-hmac"}

func (c Case) script() httpsrv.Script {
	s := httpsrv.Script{Tail: httpsrv.Step(c.Tail), Bound: Bound}
	for _, p := range c.Prefix {
		s.Prefix = append(s.Prefix, httpsrv.Step(p))
	}
	for _, p := range c.Cycle {
		s.Cycle = append(s.Cycle, httpsrv.Step(p))
	}
	return s
}

// tailClass is tailDesc with cycles reduced to the kinds of step they contain (for the histograms).
func (c Case) tailClass() string {
	if len(c.Cycle) == 0 {
		return c.Tail
	}
	var ch, re, keep bool
	for _, s := range c.Cycle {
		st := httpsrv.Step(s)
		ch = ch || st == httpsrv.Challenge
		keep = keep || st.KeepsMethod()
		re = re || (st.Redirect() && !st.KeepsMethod())
	}
	out := fmt.Sprintf("cycle%d", len(c.Cycle))
	for _, p := range []struct {
		on bool
		n  string
	}{{ch, "challenge"}, {re, "30x"}, {keep, "307/308"}} {
		if p.on {
			out += "+" + p.n
		}
	}
	return out
}

// tailDesc names what follows the prefix.
func (c Case) tailDesc() string {
	if len(c.Cycle) > 0 {
		return "cycle(" + strings.Join(c.Cycle, ",") + ")"
	}
	return c.Tail
}

// reachable is the part of the script any client can consume: up to and including the first
// response that leaves a client nothing to do (at most Bound steps).
func (c Case) reachable() []httpsrv.Step {
	s := c.script()
	var out []httpsrv.Step
	for i := 1; i <= Bound; i++ {
		st, _ := s.At(i)
		out = append(out, st)
		if st.Final() {
			break
		}
	}
	return out
}

func (c Case) body() []byte {
	if c.BodyKind == "none" || c.BodySize == 0 {
		return []byte{}
	}
	return kgen.DetBytes(c.Seed, "c18/body", c.BodySize)
}

// opaque hides the concrete reader type so that net/http can learn neither the length nor a way to rewind.
type opaque struct{ r io.Reader }

func (o opaque) Read(p []byte) (int, error) { return o.r.Read(p) }

// Obs is what one run showed (for the label histograms).
type Obs struct {
	Requests      int
	BodyToGET     int // requests that followed a 302 of a POST: sent as GET but still carrying the POST body (1 = same host, 2 = other host)
	Answered      int // challenges answered with a verified token
	Tokens        int
	CrossHostAuth bool // a challenge of the second host was answered after a cross-host redirect
	BodyReplayed  bool // a non-empty body was re-sent with a token
	Outcome       string
	Err           string
	Trace         string // the requests as the server saw them
}

func hasNegotiate(h http.Header) (string, bool) {
	for _, v := range h.Values("Authorization") {
		if len(v) >= 9 && strings.EqualFold(v[:9], "Negotiate") {
			return v, true
		}
	}
	return "", false
}

func describe(recs []httpsrv.Request) string {
	var b strings.Builder
	for _, r := range recs {
		auth := "-"
		if _, ok := hasNegotiate(r.Header); ok {
			auth = "token"
		} else if r.Header.Get("Authorization") != "" {
			auth = "other"
		}
		fmt.Fprintf(&b, "\n  #%d host%d %s %s body=%d auth=%s -> %s", r.Seq, r.Host, r.Method, r.RequestURI, len(r.Body), auth, r.Step)
		if r.OverBound {
			b.WriteString(" (bound exceeded: forced 200)")
		}
		if r.Seq >= 30 {
			b.WriteString("\n  ...")
			break
		}
	}
	return b.String()
}

func bodyDiff(want, have []byte) string {
	switch {
	case len(have) < len(want) && bytes.Equal(want[:len(have)], have):
		return "lost" // empty or cut short
	case len(have) > len(want) && bytes.Equal(have[:len(want)], want):
		return "extended"
	}
	return "different"
}

// Eval runs one case.
func Eval(c Case) evid.Verdict {
	v, _ := Run(c)
	return v
}

// Run runs one case and also reports what was observed.
func Run(c Case) (v evid.Verdict, o Obs) {
	defer func() {
		if p := recover(); p != nil {
			v = evid.SafeEval(func() evid.Verdict { panic(p) })
		}
	}()
	return run(c)
}

func run(c Case) (evid.Verdict, Obs) {
	var o Obs
	harness := func(f string, a ...any) (evid.Verdict, Obs) { return evid.Fail("harness", f, a...), o }
	if c.Via == "helper" && c.Method != "POST" && c.BodyKind != "none" {
		return harness("Client.Get/Head take no body")
	}
	if etypeNames[c.TktEType] == "" || etypeNames[c.SessEType] == "" {
		return harness("bad etype in case")
	}
	// --- the world: one realm, one client, three HTTP services
	w := kdc.NewWorld(c.Seed)
	realm := w.AddRealm(realmName, kdc.Policy{ETypes: []int32{c.SessEType}, TicketEType: c.TktEType})
	pr := realm.AddClient(clientName, "c18-password", nil, 0)
	ipA := kdc.UniqueIP()
	ipB := kdc.UniqueIP()
	hostA := httpsrv.HostSpec{ListenIP: ipA}
	nameA := ipA
	switch c.SPN {
	case "derived-localhost":
		hostA = httpsrv.HostSpec{ListenIP: "127.0.0.1", URLName: "localhost"}
		nameA = "localhost"
	case "derived-rooted":
		// a rooted name (trailing dot) in the URL, next to the port: the service is still HTTP/localhost
		hostA = httpsrv.HostSpec{ListenIP: "127.0.0.1", URLName: "localhost."}
		nameA = "localhost"
	}
	names := []string{nameA, ipB}
	for _, s := range []string{explicitSPN, "HTTP/" + nameA, "HTTP/" + ipB} {
		realm.AddService(s)
	}
	// the KDC gets an address of its own; another process may hold it (checks run side by side), so try a few
	var ks *kdc.Server
	for try := 0; ; try++ {
		ks = kdc.NewServer(realm, kdc.UniqueIP(), 8818, kdc.Answers, kdc.Answers, "k")
		err := ks.Start()
		if err == nil {
			break
		}
		ks.Stop()
		if try == 8 {
			return harness("KDC listen: %v", err)
		}
	}
	defer ks.Stop()
	cfg, err := config.NewFromString(kdc.ConfText(kdc.ConfOpts{DefaultRealm: realmName, ETypes: etypeNames[c.SessEType], NoAddresses: true,
		Extra: "  allow_weak_crypto = true\n"}, map[string][]string{realmName: {ks.Addr}}))
	if err != nil {
		return harness("config: %v", err)
	}
	kt := keytab.New()
	if err := kt.Unmarshal(mint.KeytabBytes([]mint.KeytabEntry{{Principal: clientName, Realm: realmName, KVNO: 1, Key: realm.Key(pr, c.SessEType), Timestamp: 1000}})); err != nil {
		return harness("keytab: %v", err)
	}
	cl := client.NewWithKeytab(clientName, realmName, kt, cfg, client.DisablePAFXFAST(true))
	defer cl.Destroy()
	if !c.Lazy {
		if err := cl.Login(); err != nil {
			return harness("login against the simulated KDC failed: %v", err)
		}
	}
	// --- the scripted HTTP hosts
	srv, err := httpsrv.Start(c.script(), hostA, httpsrv.HostSpec{ListenIP: ipB})
	if err != nil {
		return harness("HTTP listen: %v", err)
	}
	stopped := false
	stop := func() {
		if !stopped {
			stopped = true
			srv.Stop()
		}
	}
	defer stop()
	dialer := &net.Dialer{Timeout: 10 * time.Second}
	tr := &http.Transport{Proxy: nil, DisableCompression: true, ExpectContinueTimeout: 5 * time.Second, DialContext: func(ctx context.Context, network, addr string) (net.Conn, error) {
		// the rooted name is not in /etc/hosts and there is no DNS: the caller's transport knows where it lives
		if h, p, err := net.SplitHostPort(addr); err == nil && h == "localhost." {
			addr = net.JoinHostPort("127.0.0.1", p)
		}
		return dialer.DialContext(ctx, network, addr)
	}}
	hc := &http.Client{Transport: tr}
	if c.OwnCheck {
		hc.CheckRedirect = func(*http.Request, []*http.Request) error { return nil }
	}
	defer tr.CloseIdleConnections()
	spnArg := ""
	if c.SPN == "explicit" {
		spnArg = explicitSPN
	}
	sc := spnego.NewClient(cl, hc, spnArg)
	body := c.body()
	var rdr io.Reader
	switch c.BodyKind {
	case "bytes":
		rdr = bytes.NewReader(body)
	case "stream":
		rdr = opaque{bytes.NewReader(body)}
	}
	req, err := http.NewRequest(c.Method, srv.URL(0, "/start"), rdr)
	if err != nil {
		return harness("NewRequest: %v", err)
	}
	req.Header.Set("X-Case", "c18")
	if c.Expect {
		req.Header.Set("Expect", "100-continue")
	}
	type result struct {
		resp *http.Response
		err  error
		body []byte
		berr error
		pan  any
		st   string
	}
	done := make(chan result, 1)
	go func() {
		var res result
		defer func() {
			if p := recover(); p != nil {
				res.pan = p
				res.st = evid.SafeEval(func() evid.Verdict { panic(p) }).Sig
			}
			done <- res
		}()
		switch {
		case c.Via != "helper":
			res.resp, res.err = sc.Do(req)
		case c.Method == "POST":
			res.resp, res.err = sc.Post(req.URL.String(), "application/octet-stream", rdr)
		case c.Method == "HEAD":
			res.resp, res.err = sc.Head(req.URL.String())
		default:
			res.resp, res.err = sc.Get(req.URL.String())
		}
		if res.err == nil && res.resp != nil && res.resp.Body != nil {
			res.body, res.berr = io.ReadAll(io.LimitReader(res.resp.Body, 1<<20))
			res.resp.Body.Close()
		}
	}()
	var res result
	select {
	case res = <-done:
	case <-time.After(30 * time.Second):
		n := srv.Count()
		stop()
		o.Requests, o.Outcome = n, "no-return"
		return evid.Fail("no-return", "Client.Do did not return within 30 s; the server had received %d requests; script %v tail %s", n, c.Prefix, c.tailDesc()), o
	}
	stop()
	recs := srv.Requests()
	o.Requests = len(recs)
	ctx := fmt.Sprintf("script %v then %s forever; %s, body %s/%d, SPN %s, ticket etype %d, session etype %d; requests seen:%s", c.Prefix, c.tailDesc(), c.Method, c.BodyKind,
		c.BodySize, c.SPN, c.TktEType, c.SessEType, describe(recs))
	o.Trace = ctx
	if res.pan != nil {
		return evid.Fail("panic:Client.Do", "Client.Do panicked: %v; %s", res.pan, ctx), o
	}
	if res.err != nil {
		o.Err = res.err.Error()
		ctx = fmt.Sprintf("Do returned error %q; %s", res.err, ctx)
	} else if res.resp != nil {
		ctx = fmt.Sprintf("Do returned status %d (X-Seq %s); %s", res.resp.StatusCode, res.resp.Header.Get("X-Seq"), ctx)
	}
	if len(recs) == 0 {
		return harness("the server saw no request: %v", res.err)
	}
	// --- (1) bounded number of requests
	if len(recs) > Bound {
		cause := "challenge-loop"
		if recs[Bound-1].Step.Redirect() {
			cause = "redirect-loop"
		}
		o.Outcome = "unbounded"
		return evid.Fail("unbounded:"+cause, "one call to Client.Do caused %d requests (bound %d = 2*(%d redirects+1)+2); the server forced a 200 after the bound to end the run; %s",
			len(recs), Bound, MaxRedirects, ctx), o
	}
	// --- (2) every token sent is one an independent acceptor accepts; every challenge is answered with the same request
	intended := func(host int) string {
		if c.SPN == "explicit" {
			return explicitSPN
		}
		return "HTTP/" + names[host]
	}
	rc := acceptor.NewReplayCache()
	now := time.Now()
	// a client that was challenged before its body had been sent and cannot send it again may fail; net/http then breaks
	// off the retry it was handed (announced length, no body), which the server sees as an incomplete request
	loudEarlyFailure := res.err != nil && errClass(res.err) == "content-length" && errorCause(recs) == "early-challenge"
	for i, r := range recs {
		if r.Unread {
			continue // nothing of this request's body was read by the server
		}
		if loudEarlyFailure && r.BodyErr != "" && i == len(recs)-1 {
			continue
		}
		if i > 0 && recs[i-1].Step.Redirect() && recs[i-1].Method == "POST" && r.Method != "POST" && len(r.Body) > 0 {
			o.BodyToGET = max(o.BodyToGET, 1+(r.Host^recs[i-1].Host))
		}
		if r.BodyErr != "" && i > 0 && recs[i-1].Step.IsChallenge() {
			return evid.Fail("retry-body:lost", "the retry of the challenged request #%d arrived with an incomplete body (%s after %d of %d bytes); %s", recs[i-1].Seq, r.BodyErr, len(r.Body), len(recs[i-1].Body), ctx), o
		}
		if r.BodyErr != "" {
			return evid.Fail("request-body-broken", "request #%d arrived with an incomplete body (%s after %d bytes); %s", r.Seq, r.BodyErr, len(r.Body), ctx), o
		}
		if c.Method == http.MethodPost && r.Method == http.MethodPost && !bytes.Equal(r.Body, body) {
			// whatever led to it (first attempt, answer to a challenge, 307/308 hop): a POST is only ever sent with the caller's body
			return evid.Fail("post-body:"+bodyDiff(body, r.Body), "request #%d is a POST carrying %d body bytes, the caller's body has %d and they differ; %s", r.Seq, len(r.Body), len(body), ctx), o
		}
		if n := len(r.Header.Values("Authorization")); n > 1 {
			return evid.Fail("authorization:multiple", "request #%d carries %d Authorization headers; %s", r.Seq, n, ctx), o
		}
		answer := i > 0 && recs[i-1].Step.IsChallenge() && !recs[i-1].OverBound
		hv, ok := hasNegotiate(r.Header)
		if ok {
			o.Tokens++
			spn := intended(r.Host)
			acfg := acceptor.Config{SPN: spn, Realm: realmName, Now: now, Replay: rc,
				Keys: []acceptor.Key{{EType: c.TktEType, KVNO: 2, Value: realm.Key(realm.Principal(spn), c.TktEType).Value}}}
			ares, aerr := acceptor.AcceptHeader(acfg, hv)
			where := "answer"
			if !answer {
				where = "unsolicited"
			}
			if aerr != nil {
				return evid.Fail("token-rejected:"+where+":"+acceptor.ClassOf(aerr), "the Negotiate token of request #%d (to host %d, intended service %s@%s) is refused by the independent acceptor holding that service's key: %v; %s",
					r.Seq, r.Host, spn, realmName, aerr, ctx), o
			}
			if ares.CName != clientName || ares.CRealm != realmName {
				return evid.Fail("token-wrong-client", "the token of request #%d authenticates %s@%s, the client is %s@%s; %s", r.Seq, ares.CName, ares.CRealm, clientName, realmName, ctx), o
			}
			if ares.TicketEType != c.TktEType || ares.SessionEType != c.SessEType {
				return harness("ticket etype %d / session etype %d differ from the case; %s", ares.TicketEType, ares.SessionEType, ctx)
			}
		}
		if !answer {
			continue
		}
		ch := recs[i-1]
		if !ok {
			return evid.Fail("retry-without-token", "request #%d follows a 401 Negotiate challenge but carries no Negotiate token; %s", r.Seq, ctx), o
		}
		if r.Host != ch.Host || r.RequestURI != ch.RequestURI {
			return evid.Fail("retry-other-target", "the challenged request was %s on host %d, the retry went to %s on host %d; %s", ch.RequestURI, ch.Host, r.RequestURI, r.Host, ctx), o
		}
		if r.Method != ch.Method {
			return evid.Fail("retry-method", "the challenged request was a %s, the retry is a %s; %s", ch.Method, r.Method, ctx), o
		}
		chBody := ch.Body
		if ch.Unread {
			chBody = body // the server challenged on the headers alone: the attempt's body is the caller's
		}
		if !bytes.Equal(r.Body, chBody) {
			return evid.Fail("retry-body:"+bodyDiff(chBody, r.Body), "the challenged request carried a body of %d bytes, the retry carries %d bytes and they differ; %s", len(chBody), len(r.Body), ctx), o
		}
		o.Answered++
		if len(r.Body) > 0 {
			o.BodyReplayed = true
		}
		if r.Host == 1 {
			o.CrossHostAuth = true
		}
	}
	for i, r := range recs {
		if !r.Step.IsChallenge() || r.OverBound || i+1 < len(recs) {
			continue
		}
		// the last request was challenged and nothing followed
		if _, carried := hasNegotiate(r.Header); !carried {
			if res.err != nil && errClass(res.err) == "content-length" && !r.Unread {
				// the retry was attempted but net/http refused to send it: the body handed to it was shorter than announced
				return evid.Fail("retry-body:lost", "request #%d was challenged and the retry could not be sent because its body was no longer available; %s", r.Seq, ctx), o
			}
			if r.Unread && res.err != nil {
				continue // challenged before the body was sent; the client reported that it cannot send it again
			}
			return evid.Fail("challenge-not-answered", "request #%d carried no token, was answered 401 Negotiate, and the client did not retry with a token; %s", r.Seq, ctx), o
		}
	}
	// the first request reproduces the caller's request
	if f := recs[0]; f.Method != c.Method || (!f.Unread && !bytes.Equal(f.Body, body)) || f.RequestURI != "/start" {
		return evid.Fail("first-request-altered", "the first request is %s %s with %d body bytes (%s), the caller asked for %s /start with %d; %s", f.Method, f.RequestURI, len(f.Body),
			bodyDiff(body, f.Body), c.Method, len(body), ctx), o
	}
	// --- (3) the server's last response, or an error
	last := recs[len(recs)-1]
	if res.err != nil {
		o.Outcome = "error:" + errClass(res.err)
		if errClass(res.err) == "content-length" && errorCause(recs) != "early-challenge" {
			// net/http refuses to send a request whose body ends before the announced length: the client handed it a
			// body that was no longer the caller's
			return evid.Fail("resend-body:lost", "Do failed because a request it re-sent no longer had the caller's body (%d bytes); %s", len(body), ctx), o
		}
		if cause := errorCause(recs); cause == "" {
			return evid.Fail("error-without-cause:"+errClass(res.err), "every request was answered, no redirect and at most one challenge were involved, the KDC works, yet Do returned an error; %s", ctx), o
		}
		return evid.Pass(), o
	}
	if res.resp == nil {
		return evid.Fail("nil-response-nil-error", "Do returned neither a response nor an error; %s", ctx), o
	}
	o.Outcome = "returned:" + strconv.Itoa(res.resp.StatusCode)
	if res.resp.StatusCode != last.Status || res.resp.Header.Get("X-Seq") != strconv.Itoa(last.Seq) {
		return evid.Fail("returned-not-last", "the server's last response was #%d (%d) but Do returned #%s (%d); %s", last.Seq, last.Status, res.resp.Header.Get("X-Seq"), res.resp.StatusCode, ctx), o
	}
	if res.berr != nil {
		return evid.Fail("returned-body-unreadable", "the body of the returned response cannot be read: %v; %s", res.berr, ctx), o
	}
	if c.Method != http.MethodHead && last.Method != http.MethodHead && string(res.body) != last.ReplyBody {
		return evid.Fail("returned-body-differs", "the returned response body is %q, the server sent %q; %s", res.body, last.ReplyBody, ctx), o
	}
	return evid.Pass(), o
}

func errClass(err error) string {
	s := err.Error()
	switch {
	case strings.Contains(s, "stopped after 10 redirects"):
		return "redirect-limit"
	case strings.Contains(s, "could not acquire client credential"), strings.Contains(s, "could not initialize context"):
		return "kerberos"
	case strings.Contains(s, "ContentLength"):
		return "content-length"
	}
	return "other"
}

// errorCause names why an error is an admissible outcome of a run ("" = nothing in the exchange explains one).
// The statement admits an error as the outcome of any response sequence; the check only insists that a client
// which was never redirected and was challenged at most once has no reason to fail.
func errorCause(recs []httpsrv.Request) string {
	ch := 0
	for _, r := range recs {
		if r.Unread {
			// the server challenged before the body had been sent: a client that cannot send it again may say so
			return "early-challenge"
		}
	}
	for _, r := range recs {
		if r.Step.Redirect() {
			return "redirect"
		}
		if r.Step.IsChallenge() {
			ch++
		}
	}
	if ch > 1 {
		return "repeated-challenge"
	}
	return ""
}

func sizeClass(n int) string {
	switch {
	case n == 0:
		return "0"
	case n == 1:
		return "1"
	case n <= 4096:
		return "4KiB"
	case n <= 65536:
		return "64KiB"
	case n <= 65537:
		return "64KiB+1"
	}
	return "1MiB"
}

func count(r *evid.Run, c Case, gen string) {
	reach := c.reachable()
	nt := ""
	nCh, nRe, nKeep := 0, 0, 0
	for _, s := range reach {
		if s.KeepsMethod() {
			nKeep++
		}
		if s.IsChallenge() {
			nCh++
		}
		if s.Redirect() {
			nRe++
		}
	}
	if nCh+nRe > 0 {
		nt = fmt.Sprintf("%v|%v|%s|%s|%d|%s|%d|%d|%v|%s", reach, c.Cycle, c.Method, c.BodyKind, c.BodySize, c.SPN, c.TktEType, c.SessEType, c.Lazy, c.Via)
	}
	end := "ends:" + string(reach[len(reach)-1])
	if !reach[len(reach)-1].Final() {
		end = "ends:never(" + c.tailClass() + ")"
	}
	via := "via:Do"
	if c.Via == "helper" {
		via = "via:Get/Head/Post"
	}
	r.Count(nt, "gen:"+gen, via, "method:"+c.Method, "body:"+c.BodyKind+"/"+sizeClass(c.BodySize), "spn:"+c.SPN, fmt.Sprintf("ticket-etype%d", c.TktEType),
		fmt.Sprintf("session-etype%d", c.SessEType), fmt.Sprintf("prefix-len%d", len(c.Prefix)), "tail:"+c.tailClass(), end,
		fmt.Sprintf("reachable-challenges:%d", min(nCh, 6)), fmt.Sprintf("reachable-redirects:%d", min(nRe, 11)), fmt.Sprintf("reachable-307/308:%d", min(nKeep, 4)))
	r.Sample(gen+"/"+end, c)
}

func observe(r *evid.Run, c Case, o Obs) {
	r.Label("outcome:" + o.Outcome)
	r.Label(fmt.Sprintf("requests:%d", min(o.Requests, Bound+1)))
	r.Label(fmt.Sprintf("challenges-answered-and-verified:%d", min(o.Answered, 12)))
	if o.CrossHostAuth {
		r.Label("authenticated-to-second-host-after-redirect")
		if c.SPN != "explicit" {
			r.Label("authenticated-to-second-host-after-redirect:derived-spn")
		}
	}
	if o.BodyReplayed {
		r.Label("body-replayed-with-token:" + c.BodyKind + "/" + sizeClass(c.BodySize))
	}
	switch o.BodyToGET {
	case 1:
		r.Label("observed(outside the statement):POST-body-resent-in-GET-after-302:same-host")
	case 2:
		r.Label("observed(outside the statement):POST-body-resent-in-GET-after-302:other-host")
	}
}

// the captured SPNEGO token of gokrb5's own test suite (spnego/spnego_test.go testGSSAPIInit: an MIT client's
// NegTokenInit for HTTP/host.test.gokrb5@TEST.GOKRB5) — used to validate the acceptor on a real token
const capturedInit = "608202b606062b0601050502a08202aa308202a6a027302506092a864886f71201020206052b0501050206092a864882f71201020206062b0601050205a2820279048202756082027106092a864886f71201020201006e8202603082025ca003020105a10302010ea20703050000000000a38201706182016c30820168a003020105a10d1b0b544553542e474f4b524235a2233021a003020103a11a30181b04485454501b10686f73742e746573742e676f6b726235a382012b30820127a003020112a103020102a282011904820115d4bd890abc456f44e2e7a2e8111bd6767abf03266dfcda97c629af2ece450a5ae1f145e4a4d1bc2c848e66a6c6b31d9740b26b03cdbd2570bfcf126e90adf5f5ebce9e283ff5086da47b129b14fc0aabd4d1df9c1f3c72b80cc614dfc28783450b2c7b7749651f432b47aaa2ff158c0066b757f3fb00dd7b4f63d68276c76373ecdd3f19c66ebc43a81e577f3c263b878356f57e8d6c4eccd587b81538e70392cf7e73fc12a6f7c537a894a7bb5566c83ac4d69757aa320a51d8d690017aebf952add1889adfc3307b0e6cd8c9b57cf8589fbe52800acb6461c25473d49faa1bdceb8bce3f61db23f9cd6a09d5adceb411e1c4546b30b33331e570fd6bc50aa403557e75f488e759750ea038aab6454667d9b64f41a481d23081cfa003020112a281c70481c4d67ba2ae4cf5d917caab1d863605249320e90482563662ed92408a543b6ad5edeb8f9375e9060a205491df082fd2a5fec93dfb76f41012bb60cae20f07adbb77a1aa56f0521f36e1ea10dc9fb762902b254dd7664d0bcc6f751f2003e41990af1b4330d10477bfad638b9f0b704ac80cc47731f8ec8d801762bad8884b8de90adb1dbe7fc7b0ffafd38fb5eb8b6547cee30d89873281ce63ad70042a13478b1a7c2bdde0f223ace62dbb84e2d06f1070f4265f66e0544449335e2fcc4d0aee5bf81c5999"

func selfTests() error {
	if err := refcheck.All(); err != nil {
		return err
	}
	if err := acceptor.SelfTest(); err != nil {
		return err
	}
	ktb, err := hex.DecodeString(testdata.HTTP_KEYTAB)
	if err != nil {
		return err
	}
	_, ents, err := keytabfmt.Read(ktb)
	if err != nil {
		return fmt.Errorf("HTTP_KEYTAB: %v", err)
	}
	var keys []acceptor.Key
	for _, e := range ents {
		if strings.Join(e.Components, "/") == "HTTP/host.test.gokrb5" && e.Realm == "TEST.GOKRB5" {
			keys = append(keys, acceptor.Key{EType: int32(e.KeyType), KVNO: int(e.KVNO()), Value: e.Key})
		}
	}
	tok, _ := hex.DecodeString(capturedInit)
	if len(keys) == 0 {
		return fmt.Errorf("HTTP_KEYTAB holds no key for HTTP/host.test.gokrb5")
	}
	// no key in the repository decrypts this capture (checked against every keytab of test/testdata), so the
	// capture validates the token decoding down to the ticket; decryption and the RFC 4120 checks are validated
	// by acceptor.SelfTest on minted tokens
	if err := acceptor.SelfTestCaptured(tok, "HTTP/host.test.gokrb5", "TEST.GOKRB5", keys, 4, 18, 2); err != nil {
		return fmt.Errorf("acceptor on the captured MIT token: %v", err)
	}
	return rigSelfTest()
}

// rigSelfTest drives the scripted server with a plain net/http client (no gokrb5): every request must be
// recorded faithfully and answered as scripted, on both hosts, and the forced 200 must follow the bound.
func rigSelfTest() error {
	srv, err := httpsrv.Start(httpsrv.Script{Prefix: []httpsrv.Step{httpsrv.Challenge, httpsrv.RedirOther, httpsrv.Reject, httpsrv.Basic, httpsrv.Error500, httpsrv.RedirSame},
		Tail: httpsrv.Challenge, Bound: 8}, httpsrv.HostSpec{ListenIP: kdc.UniqueIP()}, httpsrv.HostSpec{ListenIP: "127.0.0.1", URLName: "localhost"})
	if err != nil {
		return fmt.Errorf("rig self-test: %v", err)
	}
	defer srv.Stop()
	tr := &http.Transport{}
	defer tr.CloseIdleConnections()
	hc := &http.Client{Transport: tr, CheckRedirect: func(*http.Request, []*http.Request) error { return http.ErrUseLastResponse }}
	payload := kgen.DetBytes(5, "c18/rig", 70000)
	wantStatus := []int{401, 302, 401, 401, 500, 302, 401, 401, 200, 200}
	wantAuth := []string{"Negotiate", "", httpsrv.RejectToken, "Basic realm=x", "", "", "Negotiate", "Negotiate", "", ""}
	for i := 0; i < 10; i++ {
		host := i % 2
		var rdr io.Reader = bytes.NewReader(payload[:i*7000])
		if i%3 == 2 {
			rdr = opaque{rdr}
		}
		method := []string{"POST", "GET", "HEAD"}[i%3]
		req, _ := http.NewRequest(method, srv.URL(host, fmt.Sprintf("/p%d", i)), rdr)
		req.Header.Set("Authorization", fmt.Sprintf("Negotiate dG9rZW4%d", i))
		resp, err := hc.Do(req)
		if err != nil {
			return fmt.Errorf("rig self-test: request %d: %v", i+1, err)
		}
		b, _ := io.ReadAll(resp.Body)
		resp.Body.Close()
		step, _ := srv.Script.At(i + 1)
		if resp.StatusCode != wantStatus[i] || resp.Header.Get("WWW-Authenticate") != wantAuth[i] || resp.Header.Get("X-Seq") != strconv.Itoa(i+1) ||
			(method != "HEAD" && string(b) != httpsrv.ReplyBodyFor(i+1, step)) {
			return fmt.Errorf("rig self-test: reply %d is %d %q %q, want %d %q", i+1, resp.StatusCode, resp.Header.Get("WWW-Authenticate"), b, wantStatus[i], wantAuth[i])
		}
		if resp.StatusCode == 302 {
			other := host
			if step == httpsrv.RedirOther {
				other = 1 - host
			}
			if want := srv.URL(other, fmt.Sprintf("/hop%d", i+1)); resp.Header.Get("Location") != want {
				return fmt.Errorf("rig self-test: Location %q, want %q", resp.Header.Get("Location"), want)
			}
		}
	}
	// cycles and the further redirect statuses
	srv2, err := httpsrv.Start(httpsrv.Script{Prefix: []httpsrv.Step{httpsrv.Redir307Other}, Cycle: []httpsrv.Step{httpsrv.Challenge, httpsrv.Redir308Same, httpsrv.Redir303Same}, Bound: 8},
		httpsrv.HostSpec{ListenIP: kdc.UniqueIP()}, httpsrv.HostSpec{ListenIP: kdc.UniqueIP()})
	if err != nil {
		return fmt.Errorf("rig self-test: %v", err)
	}
	defer srv2.Stop()
	for i, want := range []int{307, 401, 308, 303, 401, 308, 303, 401, 200} {
		req, _ := http.NewRequest("POST", srv2.URL(0, "/c"), bytes.NewReader(payload[:100]))
		resp, err := hc.Do(req)
		if err != nil {
			return fmt.Errorf("rig self-test: cycle request %d: %v", i+1, err)
		}
		io.Copy(io.Discard, resp.Body)
		resp.Body.Close()
		wantLoc := ""
		switch want {
		case 307:
			wantLoc = srv2.URL(1, fmt.Sprintf("/hop%d", i+1))
		case 308, 303:
			wantLoc = srv2.URL(0, fmt.Sprintf("/hop%d", i+1))
		}
		if resp.StatusCode != want || resp.Header.Get("Location") != wantLoc {
			return fmt.Errorf("rig self-test: cycle reply %d is %d to %q, want %d to %q", i+1, resp.StatusCode, resp.Header.Get("Location"), want, wantLoc)
		}
	}
	recs := srv.Requests()
	if len(recs) != 10 {
		return fmt.Errorf("rig self-test: %d records", len(recs))
	}
	for i, r := range recs {
		if r.Seq != i+1 || r.Host != i%2 || r.Method != []string{"POST", "GET", "HEAD"}[i%3] || r.RequestURI != fmt.Sprintf("/p%d", i) || !bytes.Equal(r.Body, payload[:i*7000]) ||
			r.BodyErr != "" || r.Header.Get("Authorization") != fmt.Sprintf("Negotiate dG9rZW4%d", i) || r.OverBound != (i >= 8) || r.HostHeader != srv.URLHost(i%2) {
			return fmt.Errorf("rig self-test: record %d is wrong: %s %s host %d body %d err %q", i+1, r.Method, r.RequestURI, r.Host, len(r.Body), r.BodyErr)
		}
	}
	return nil
}

var weightedSteps = []httpsrv.Step{httpsrv.Challenge, httpsrv.Challenge, httpsrv.Challenge, httpsrv.RedirSame, httpsrv.RedirSame, httpsrv.RedirOther, httpsrv.RedirOther,
	httpsrv.OK, httpsrv.Reject, httpsrv.Basic, httpsrv.Error500}

var (
	weightedAll = append(append([]httpsrv.Step{}, weightedSteps...), httpsrv.MoreRedirects...)
	// steps after which a client goes on: only these make a cycle differ from a prefix
	nonFinal = []httpsrv.Step{httpsrv.Challenge, httpsrv.Challenge, httpsrv.RedirSame, httpsrv.RedirOther, httpsrv.Redir307Same, httpsrv.Redir307Other, httpsrv.Redir308Same,
		httpsrv.Redir303Same, httpsrv.Redir301Other}
)

func allScripts(maxLen int) [][]string { return scriptsOver(httpsrv.Alphabet, 0, maxLen) }

// scriptsOver lists every sequence over alpha whose length lies in [minLen, maxLen].
func scriptsOver(alpha []httpsrv.Step, minLen, maxLen int) [][]string {
	out := [][]string{}
	if minLen == 0 {
		out = append(out, []string{})
	}
	level := [][]string{{}}
	for l := 1; l <= maxLen; l++ {
		var next [][]string
		for _, p := range level {
			for _, s := range alpha {
				next = append(next, append(append([]string{}, p...), string(s)))
			}
		}
		if l >= minLen {
			out = append(out, next...)
		}
		level = next
	}
	return out
}

func TestProp(t *testing.T) {
	r := evid.Start(t, "C18", "exploration")
	evid.Reg(r, "script", Eval)
	evid.Reg(r, "enum", Eval)
	if r.Replay() {
		return
	}
	defer r.Finish()
	if err := selfTests(); err != nil {
		r.Inconclusive("self-test failed: %v", err)
		return
	}
	r.Regress()
	r.Assume("the server is sim/httpsrv: real loopback listeners (two hosts sharing one request counter) that read every request body to the end before replying; tickets come from sim/kdc over loopback UDP/TCP; every Negotiate token seen is judged by ref/acceptor (RFC 4120 3.2.3 + RFC 4121 4.1.1 over ref/der and ref/krbcrypto, with a replay cache) holding the key of the service the request was addressed to (the explicit SPN, or HTTP/<URL host> when the SPN is derived); an error return is admissible whenever a redirect or a repeated challenge occurred; the bound is B = 2*(10 redirects+1)+2 = 24 requests per call and the server answers 200 from request 25 on")
	r.Extra("request_bound", Bound)

	methods := []string{"GET", "HEAD", "POST"}
	sizes := []int{0, 1, 4096, 65536, 1 << 20}
	spns := []string{"explicit", "derived-ip", "derived-localhost", "derived-rooted"}
	r.Rule("script: rapid-drawn server scripts (prefix of 0..5 steps over {200, 401 Negotiate, 401 Negotiate+reject token, 401 Basic, 302 same host, 302 other host, 500}, plus 307 same/other host, 308, 303, 301; weighted towards challenges and redirects; then a constant tail or, one time in four, a cycle of 2..3 non-final steps repeated for ever) x method {GET, HEAD, POST} x body {none, known-length, opaque stream} x size {0, 1, 4 KiB, 64 KiB, 1 MiB} x SPN {explicit, derived from an IP URL, derived from a localhost URL, derived from a rooted localhost. URL} x ticket etype (6) x session etype (6) x login {before, lazily} x entry point {Do, Get/Head/Post}; non-trivial = the part of the script a client can reach (up to the first 200/500/401-Basic/401-reject) contains a 401 Negotiate or a redirect")
	r.Rapid("script", r.N(1500, 20000), func(t *rapid.T) {
		n := rapid.IntRange(0, 5).Draw(t, "len")
		c := Case{Tail: string(rapid.SampledFrom(httpsrv.Alphabet).Draw(t, "tail")), Method: rapid.SampledFrom(methods).Draw(t, "method"),
			BodyKind: rapid.SampledFrom([]string{"none", "bytes", "bytes", "stream"}).Draw(t, "bodykind"), SPN: rapid.SampledFrom(spns).Draw(t, "spn"),
			TktEType: rapid.SampledFrom(ref.ETypes).Draw(t, "tkt-etype"), SessEType: rapid.SampledFrom(ref.ETypes).Draw(t, "sess-etype"),
			Lazy: rapid.IntRange(0, 3).Draw(t, "lazy") == 0, Seed: rapid.Uint64Range(1, 1<<32).Draw(t, "seed"), Prefix: []string{}}
		for i := 0; i < n; i++ {
			c.Prefix = append(c.Prefix, string(rapid.SampledFrom(weightedAll).Draw(t, "step")))
		}
		c.OwnCheck = rapid.IntRange(0, 3).Draw(t, "own-check-redirect") == 0
		if rapid.IntRange(0, 3).Draw(t, "cyclic") == 0 {
			for i, m := 0, rapid.IntRange(2, 3).Draw(t, "cycle-len"); i < m; i++ {
				c.Cycle = append(c.Cycle, string(rapid.SampledFrom(nonFinal).Draw(t, "cycle-step")))
			}
		}
		if c.BodyKind != "none" {
			c.BodySize = rapid.SampledFrom(sizes).Draw(t, "size")
		}
		if (c.Method == "POST" || c.BodyKind == "none") && rapid.IntRange(0, 3).Draw(t, "via") == 0 {
			c.Via = "helper"
		}
		if c.BodyKind != "none" && c.BodySize > 0 && c.Via != "helper" && rapid.IntRange(0, 3).Draw(t, "expect") == 0 {
			// an upload announced with Expect: 100-continue; only then does the script also hold servers that challenge on
			// the headers alone (without Expect how much of the body such a server has taken is a matter of timing)
			c.Expect = true
			for i := range c.Prefix {
				if c.Prefix[i] == string(httpsrv.Challenge) && rapid.Bool().Draw(t, "early") {
					c.Prefix[i] = string(httpsrv.ChallengeEarly)
				}
			}
		}
		count(r, c, "rapid")
		v, o := Run(c)
		observe(r, c, o)
		if r.Judge("script", c, v) {
			t.Fatalf("violation: %s", v.Sig)
		}
	})

	// bounded-exhaustive: every prefix up to a length x every tail, under two request profiles
	type profile struct {
		name     string
		maxLen   int
		method   string
		bodyKind string
		size     int
		spn      string
		tkt, ses int32
	}
	profiles := []profile{
		{"defaults", r.N(3, 5), "GET", "none", 0, "explicit", 18, 18},
		{"post-derived", r.N(2, 4), "POST", "bytes", 4096, "derived-ip", 17, 20},
	}
	var jobs []Case
	var gens []string
	for _, p := range profiles {
		for _, pre := range allScripts(p.maxLen) {
			for _, tail := range httpsrv.Alphabet {
				jobs = append(jobs, Case{Prefix: pre, Tail: string(tail), Method: p.method, BodyKind: p.bodyKind, BodySize: p.size, SPN: p.spn, TktEType: p.tkt, SessEType: p.ses,
					Seed: r.Seed()*1000003 + uint64(len(jobs)), OwnCheck: len(pre) <= 1 && len(jobs)%2 == 1})
				gens = append(gens, "enum-"+p.name)
			}
		}
		r.Exhaustive(fmt.Sprintf("every script prefix of length <= %d x every constant tail (profile %s: %s, body %s/%d, SPN %s)", p.maxLen, p.name, p.method, p.bodyKind, p.size, p.spn))
	}
	// every method x body x SPN x etype combination on the scripts that matter most
	core := [][]string{{"401-negotiate"}, {"302-other-host", "401-negotiate"}, {"401-negotiate", "302-same-host", "401-negotiate"}, {"302-same-host", "401-negotiate", "302-other-host", "401-negotiate"}}
	k := 0
	for _, pre := range core {
		for _, m := range methods {
			for _, bk := range []string{"none", "bytes", "stream"} {
				for _, sz := range sizes {
					if bk == "none" && sz != 0 {
						continue
					}
					for _, spn := range spns {
						k++
						if r.Quick() && (sz > 65536 || (k+int(r.Seed()))%4 != 0) {
							continue
						}
						jobs = append(jobs, Case{Prefix: pre, Tail: "200", Method: m, BodyKind: bk, BodySize: sz, SPN: spn, TktEType: ref.ETypes[k%6], SessEType: ref.ETypes[(k/6)%6],
							Lazy: k%5 == 0, Seed: r.Seed()*7919 + uint64(k)})
						gens = append(gens, "enum-cross")
					}
				}
			}
		}
	}
	// servers that never settle: every cycle of two or three non-final steps, after three short prefixes
	cyc := scriptsOver([]httpsrv.Step{httpsrv.Challenge, httpsrv.RedirSame, httpsrv.RedirOther, httpsrv.Redir307Same}, 2, 3)
	for _, cy := range cyc {
		for pi, pre := range [][]string{{}, {"401-negotiate"}, {"302-same-host"}} {
			for fi, p := range profiles {
				k++
				if fi == 1 && pi > 0 && r.Quick() {
					continue
				}
				jobs = append(jobs, Case{Prefix: pre, Tail: "200", Cycle: cy, Method: p.method, BodyKind: p.bodyKind, BodySize: p.size, SPN: p.spn, TktEType: p.tkt, SessEType: p.ses,
					Seed: r.Seed()*104729 + uint64(k), OwnCheck: k%3 == 0}) // a third of them through an http.Client that brings its own, permissive CheckRedirect
				gens = append(gens, "enum-cycles")
			}
		}
	}
	r.Exhaustive("every cycle of 2..3 steps over {401 Negotiate, 302 same host, 302 other host, 307 same host} repeated for ever, after the prefixes {}, {401 Negotiate}, {302}")
	// redirects that oblige the client to repeat method and body, mixed with challenges, under POST
	keep := scriptsOver([]httpsrv.Step{httpsrv.Challenge, httpsrv.Redir307Same, httpsrv.Redir307Other, httpsrv.Redir308Same}, 1, 3)
	type bodyProfile struct {
		kind string
		size int
	}
	bodies := []bodyProfile{{"bytes", 1}, {"bytes", 65537}, {"stream", 4096}}
	if !r.Quick() {
		bodies = append(bodies, bodyProfile{"bytes", 1 << 20}, bodyProfile{"stream", 65537})
	}
	for _, pre := range keep {
		for bi, b := range bodies {
			k++
			jobs = append(jobs, Case{Prefix: pre, Tail: "200", Method: "POST", BodyKind: b.kind, BodySize: b.size, SPN: spns[(k+bi)%len(spns)], TktEType: ref.ETypes[k%6], SessEType: ref.ETypes[(k/6)%6],
				Seed: r.Seed()*15485863 + uint64(k)})
			gens = append(gens, "enum-307-308")
		}
	}
	r.Exhaustive("every script of 1..3 steps over {401 Negotiate, 307 same host, 307 other host, 308 same host} then 200, under POST with bodies of 1 B, 64 KiB+1 and a 4 KiB stream (thorough: also 1 MiB and a 64 KiB+1 stream)")
	// uploads announced with Expect: 100-continue to servers that challenge on the headers alone (the body of that
	// attempt is never sent) or after reading the body
	for _, pre := range [][]string{{"401-negotiate-early"}, {"401-negotiate-early", "401-negotiate-early"}, {"401-negotiate"}, {"302-same-host", "401-negotiate-early"}, {"401-negotiate-early", "307-same-host", "401-negotiate"},
		{"307-other-host", "401-negotiate-early"}, {"401-negotiate", "307-same-host", "401-negotiate-early"}} {
		for bi, b := range []bodyProfile{{"bytes", 1}, {"bytes", 65537}, {"stream", 1}, {"stream", 4096}, {"stream", 65537}} {
			k++
			jobs = append(jobs, Case{Prefix: pre, Tail: "200", Method: "POST", BodyKind: b.kind, BodySize: b.size, Expect: true, SPN: spns[(k+bi)%len(spns)], TktEType: ref.ETypes[k%6], SessEType: ref.ETypes[(k/6)%6],
				Seed: r.Seed()*32452843 + uint64(k)})
			gens = append(gens, "enum-expect-continue")
		}
	}
	for _, te := range ref.ETypes {
		for _, se := range ref.ETypes {
			jobs = append(jobs, Case{Prefix: []string{"401-negotiate"}, Tail: "200", Method: "POST", BodyKind: "bytes", BodySize: 100, SPN: "explicit", TktEType: te, SessEType: se, Seed: r.Seed() + uint64(te*100+se)})
			gens = append(gens, "enum-etypes")
		}
	}
	r.Rule(fmt.Sprintf("enum (a share of all scripts through an http.Client that brings its own CheckRedirect letting every redirect pass): every prefix of length <= %d x 7 tails at GET/no body/explicit SPN and every prefix of length <= %d x 7 tails at POST/4 KiB/derived SPN; every non-settling cycle of 2..3 steps over {401 Negotiate, 302 same/other host, 307} after three prefixes; every script of 1..3 steps over {401 Negotiate, 307 same/other host, 308} under POST with three (thorough: five) bodies; uploads with Expect: 100-continue against seven scripts with servers that challenge on the headers alone x five bodies; four authentication scripts x method x body kind x size x SPN mode (quick: a seeded 1/4 slice without the 1 MiB bodies); every ticket etype x session etype on challenge-then-200",
		profiles[0].maxLen, profiles[1].maxLen))
	evid.Parallel(len(jobs), 64, func(i int) {
		c := jobs[i]
		count(r, c, gens[i])
		v, o := Run(c)
		observe(r, c, o)
		r.Violation("enum", c, v)
	})
}
