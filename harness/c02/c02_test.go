// C02 — an authenticator is accepted at most once while it remains acceptable.
package c02

import (
	"fmt"
	"sort"
	"strings"

	"github.com/jcmturner/gokrb5/v8/iana/errorcode"
	"sync"
	"testing"
	"time"

	"github.com/jcmturner/gokrb5/v8/keytab"
	"github.com/jcmturner/gokrb5/v8/messages"
	"github.com/jcmturner/gokrb5/v8/service"
	"github.com/jcmturner/gokrb5/v8/types"
	"pgregory.net/rapid"

	"verif/harness/c01"
	"verif/harness/evid"
	ref "verif/harness/ref/krbcrypto"
	"verif/harness/sched"
)

// Op is one operation on the replay cache.
type Op struct {
	K  string `json:"k"`            // present | cleanup | sleep
	C  int    `json:"c,omitempty"`  // client index
	T  int    `json:"t,omitempty"`  // timestamp index
	S  int    `json:"s,omitempty"`  // service index
	Ms int    `json:"ms,omitempty"` // sleep duration
}

func (o Op) String() string {
	switch o.K {
	case "present":
		return fmt.Sprintf("P(c%d,t%d,s%d)", o.C, o.T, o.S)
	case "sleep":
		return fmt.Sprintf("sleep(%d)", o.Ms)
	}
	return o.K
}

// Case is a history (sequential or threaded) against a private cache, or a stress configuration.
type Case struct {
	Mode    string  `json:"mode"`    // seq | timed | sched | stress-cache | stress-apreq
	SkewMs  int     `json:"skew_ms"` // permitted skew = clean-up age
	TOffUs  []int64 `json:"toff_us"` // ctime of timestamp index i, microseconds relative to the start of the case
	Pre     []Op    `json:"pre,omitempty"`
	Threads [][]Op  `json:"threads,omitempty"`
	Post    []Op    `json:"post,omitempty"`
	Choices []int   `json:"choices,omitempty"` // schedule (sched mode)
	N       int     `json:"n,omitempty"`       // goroutines (stress)
	Rounds  int     `json:"rounds,omitempty"`
	EType   int32   `json:"etype,omitempty"`
	Kind    string  `json:"kind,omitempty"`   // volume: same-client | same-client-other-services | many-clients
	Names   int     `json:"names,omitempty"`  // which pair of client names and of service names the indices 0/1 stand for (see namePairs)
	Zone    int     `json:"zone_s,omitempty"` // the client time arrives as local time with this zone offset in seconds (a numeric offset in the GeneralizedTime): the same instant, but a time.Time in a location of its own per decoding
}

// namePairs: what client 0 / client 1 and service 0 / service 1 are called. The pairs differ in ways a cache key
// must not ignore: the last character, letter case, one being a prefix of the other, a trailing component.
var namePairs = []struct{ c0, c1, s0, s1 []string }{
	{[]string{"client0"}, []string{"client1"}, []string{"svc", "host0"}, []string{"svc", "host1"}},
	{[]string{"alice"}, []string{"Alice"}, []string{"HTTP", "web.example.com"}, []string{"http", "web.example.com"}},
	{[]string{"alice"}, []string{"alice2"}, []string{"HTTP", "web"}, []string{"HTTP", "web.example.com"}},
	{[]string{"alice"}, []string{"alice", "admin"}, []string{"HTTP", "web"}, []string{"host", "web"}},
	{[]string{"b", "alice"}, []string{"a", "alice"}, []string{"HTTP", "web"}, []string{"HTTP", "web", "x"}},
}

type rec struct {
	op            Op
	thread        int
	before, after time.Time
	replay        bool
}

var yieldMu sync.Mutex // the yield hook is process-global: sched-mode cases run one at a time

func auth(base time.Time, c Case, o Op) (types.PrincipalName, types.Authenticator) {
	ct := base.Add(time.Duration(c.TOffUs[o.T]) * time.Microsecond).UTC()
	np := namePairs[c.Names%len(namePairs)]
	cn, sv := np.c0, np.s0
	if o.C != 0 {
		cn = np.c1
	}
	if o.S != 0 {
		sv = np.s1
	}
	if o.C > 1 || o.S > 1 {
		cn, sv = []string{fmt.Sprintf("client%d", o.C)}, []string{"svc", fmt.Sprintf("host%d", o.S)}
	}
	if c.Zone != 0 {
		ct = ct.In(time.FixedZone("", c.Zone)) // what the decoder hands over for "...+0130": a location made for this value
	}
	a := types.Authenticator{AVNO: 5, CRealm: "EXAMPLE.COM",
		CName: types.PrincipalName{NameType: 1, NameString: append([]string{}, cn...)},
		CTime: ct.Truncate(time.Second), Cusec: ct.Nanosecond() / 1000}
	sn := types.PrincipalName{NameType: 2, NameString: append([]string{}, sv...)}
	return sn, a
}

func exec(cache *service.Cache, base time.Time, c Case, o Op, thread int, out *[]rec, mu *sync.Mutex) {
	switch o.K {
	case "present":
		sn, a := auth(base, c, o)
		b := time.Now()
		rp := cache.IsReplay(sn, a)
		e := time.Now()
		mu.Lock()
		*out = append(*out, rec{o, thread, b, e, rp})
		mu.Unlock()
	case "cleanup":
		b := time.Now()
		cache.ClearOldEntries(time.Duration(c.SkewMs) * time.Millisecond)
		mu.Lock()
		*out = append(*out, rec{o, thread, b, time.Now(), false})
		mu.Unlock()
	case "sleep":
		time.Sleep(time.Duration(o.Ms) * time.Millisecond)
	}
}

// discarded counts cases not judged because a presentation straddled the acceptability window.
var discarded struct {
	sync.Mutex
	n int
}

// Eval runs the case and judges the resulting history.
func Eval(c Case) evid.Verdict {
	return evid.SafeEval(func() evid.Verdict {
		switch c.Mode {
		case "volume":
			return evalVolume(c)
		case "apreq-settings":
			return evalAPReqSettings(c)
		case "stress-apreq":
			return evalStressAPReq(c)
		case "stress-cache":
			return evalStressCache(c)
		}
		cache := service.VerifNewCache()
		base := time.Now()
		var hist []rec
		var mu sync.Mutex
		for _, o := range c.Pre {
			exec(cache, base, c, o, -1, &hist, &mu)
		}
		var trace []string
		if len(c.Threads) > 0 {
			bodies := []func(){}
			for ti, ops := range c.Threads {
				ti, ops := ti, ops
				bodies = append(bodies, func() {
					for _, o := range ops {
						exec(cache, base, c, o, ti, &hist, &mu)
					}
				})
			}
			yieldMu.Lock()
			_, tr, err := sched.Run(bodies, c.Choices, func(f func(string)) { service.VerifYield = f })
			yieldMu.Unlock()
			trace = tr
			if err != nil {
				return evid.Fail("blocked", "%v", err)
			}
		} else {
			// unthreaded histories still pass through the yield hook (nil): nothing to do
		}
		for _, o := range c.Post {
			exec(cache, base, c, o, -2, &hist, &mu)
		}
		return judge(c, base, hist, trace)
	})
}

func judge(c Case, base time.Time, hist []rec, trace []string) evid.Verdict {
	skew := time.Duration(c.SkewMs) * time.Millisecond
	type key struct{ c, t, s int }
	by := map[key][]rec{}
	var keys []key
	for _, r := range hist {
		if r.op.K != "present" {
			continue
		}
		k := key{r.op.C, r.op.T, r.op.S}
		if _, ok := by[k]; !ok {
			keys = append(keys, k)
		}
		by[k] = append(by[k], r)
	}
	sort.Slice(keys, func(i, j int) bool { return fmt.Sprint(keys[i]) < fmt.Sprint(keys[j]) })
	render := func() string {
		var b strings.Builder
		for _, r := range hist {
			if r.op.K == "present" {
				fmt.Fprintf(&b, "  [thread %d] %s -> replay=%v\n", r.thread, r.op, r.replay)
			} else {
				fmt.Fprintf(&b, "  [thread %d] %s\n", r.thread, r.op)
			}
		}
		if trace != nil {
			fmt.Fprintf(&b, "  schedule: %s\n", strings.Join(trace, " "))
		}
		return b.String()
	}
keyLoop:
	for _, k := range keys {
		ct := base.Add(time.Duration(c.TOffUs[k.t]) * time.Microsecond)
		acc := func(t time.Time) bool {
			d := t.Sub(ct)
			if d < 0 {
				d = -d
			}
			return d <= skew
		}
		var accepted []rec
		for _, r := range by[k] {
			if acc(r.before) != acc(r.after) || !acc(r.before) {
				// presented outside (or across the edge of) the window: VerifyAPREQ would not have consulted
				// the cache; this authenticator is not judged (the others of the case are: what the cache says
				// about them does not depend on it)
				discarded.Lock()
				discarded.n++
				discarded.Unlock()
				continue keyLoop
			}
			if !r.replay {
				accepted = append(accepted, r)
			}
		}
		if len(accepted) >= 2 {
			p1, p2 := accepted[0], accepted[1]
			class := "sequential"
			switch {
			case p2.before.Before(p1.after) || (p1.thread >= 0 && p2.thread >= 0 && p1.thread != p2.thread):
				class = "concurrent"
			default:
				for _, r := range hist {
					if r.before.After(p1.after) && r.after.Before(p2.before) {
						if r.op.K == "present" && r.op.C == k.c && r.op.T == k.t && r.op.S != k.s {
							class = "other-service-between"
							break
						}
						if r.op.K == "cleanup" && class != "other-service-between" {
							class = "after-cleanup"
						}
						if r.op.K == "present" && r.op.C == k.c && r.op.T != k.t && class == "sequential" && (p1.thread >= 0 || len(c.Threads) > 0) {
							class = "lost-entry"
						}
					}
				}
			}
			return evid.Fail("double-accept:"+class, "authenticator (client%d, t%d, svc host%d) was accepted %d times while still acceptable\n%s", k.c, k.t, k.s, len(accepted), render())
		}
		for _, r := range by[k] {
			if !r.replay {
				continue
			}
			ok := false
			for _, q := range accepted {
				if q.before.Before(r.after) {
					ok = true
				}
			}
			if !ok {
				return evid.Fail("false-replay", "authenticator (client%d, t%d, svc host%d) was reported as a replay although it had never been accepted\n%s", k.c, k.t, k.s, render())
			}
		}
	}
	return evid.Pass()
}

// ---------------------------------------------------------------------------------------------
// volume: an accepted authenticator must stay refused however many others are verified in between

func evalVolume(c Case) evid.Verdict {
	cache := service.VerifNewCache()
	base := time.Now().UTC()
	np := namePairs[c.Names%len(namePairs)]
	mk := func(client []string, svc []string, us int) (types.PrincipalName, types.Authenticator) {
		ct := base.Add(time.Duration(us) * time.Microsecond)
		return types.PrincipalName{NameType: 2, NameString: append([]string{}, svc...)},
			types.Authenticator{AVNO: 5, CRealm: "EXAMPLE.COM", CName: types.PrincipalName{NameType: 1, NameString: append([]string{}, client...)},
				CTime: ct.Truncate(time.Second), Cusec: ct.Nanosecond() / 1000}
	}
	sn, x := mk(np.c0, np.s0, 0)
	if cache.IsReplay(sn, x) {
		return evid.Fail("false-replay", "the first authenticator ever presented to a new cache was called a replay")
	}
	for i := 1; i <= c.N; i++ {
		var s2 types.PrincipalName
		var a types.Authenticator
		switch c.Kind {
		case "same-client":
			s2, a = mk(np.c0, np.s0, i)
		case "same-client-other-services":
			s2, a = mk(np.c0, []string{"svc", fmt.Sprintf("host%d", i)}, 0)
		default: // many-clients
			s2, a = mk([]string{fmt.Sprintf("user%d", i)}, np.s0, i%1000)
		}
		if cache.IsReplay(s2, a) {
			return evid.Fail("false-replay", "volume %s: authenticator %d of %d, never presented before, was called a replay", c.Kind, i, c.N)
		}
		if i%1000 == 0 {
			cache.ClearOldEntries(time.Duration(c.SkewMs) * time.Millisecond)
		}
	}
	if time.Since(base) > time.Duration(c.SkewMs)*time.Millisecond/2 {
		return evid.Pass() // far too slow a machine: the window has moved, not judged
	}
	if !cache.IsReplay(sn, x) {
		return evid.Fail("double-accept:after-volume:"+c.Kind, "an authenticator was accepted, %d other authenticators (%s) were verified within the skew window, and the first one was accepted again", c.N, c.Kind)
	}
	return evid.Pass()
}

// apreq-settings: the same AP-REQ octets presented to VerifyAPREQ under two Settings values of one process

var settingsPairs = []struct {
	name         string
	skew1, skew2 int // seconds, 0 = default
	pac1, pac2   bool
}{
	{"same", 0, 0, true, true},
	{"skew-default-then-2m", 0, 120, true, true},
	{"skew-default-then-10m", 0, 600, true, true},
	{"skew-10m-then-default", 600, 0, true, true},
	{"skew-1h-then-5m", 3600, 300, true, true},
	{"skew-2m-then-1h", 120, 3600, false, false},
	{"pac-decoding-on-then-off", 0, 0, true, false},
	{"pac-decoding-off-then-on", 0, 0, false, true},
	{"pac-decoding-off-twice", 0, 0, false, false},
}

func evalAPReqSettings(c Case) evid.Verdict {
	c01.SamplePAC()
	sp := settingsPairs[c.N%len(settingsPairs)]
	cs := c01.Base(c.EType, uint64(c.Rounds)*104729+uint64(c.N)+uint64(c.Zone+50000)*15485863, "HTTP/svc.example.com")
	if c.Zone != 0 {
		cs.CTimeZone = time.Unix(0, 0).In(time.FixedZone("", c.Zone)).Format("-0700")
	}
	m, err := cs.Mint(c01.SamplePAC())
	if err != nil {
		return evid.Fail("harness", "mint: %v", err)
	}
	kt := keytab.New()
	if err := kt.Unmarshal(m.Keytab); err != nil {
		return evid.Fail("harness", "keytab: %v", err)
	}
	present := func(skew int, pac bool) (bool, error) {
		var ap messages.APReq
		if err := ap.Unmarshal(m.APReq); err != nil {
			return false, err
		}
		c2 := cs
		c2.SkewSec, c2.DecodePAC = skew, pac
		ok, _, err := service.VerifyAPREQ(&ap, c2.Settings(kt))
		return ok, err
	}
	if ok, err := present(sp.skew1, sp.pac1); !ok {
		return evid.Fail("false-replay", "a fresh valid AP-REQ was refused under the first settings (%s): %v", sp.name, err)
	}
	ok, err := present(sp.skew2, sp.pac2)
	if ok {
		return evid.Fail("double-accept:other-settings:"+strings.SplitN(sp.name, "-", 2)[0], "the same AP-REQ octets were accepted twice by one process, the second time under other Settings (%s)", sp.name)
	}
	if ke, isK := err.(messages.KRBError); !isK || ke.ErrorCode != errorcode.KRB_AP_ERR_REPEAT {
		return evid.Fail("replay-wrong-error", "second presentation (%s) refused with %v, want KRB_AP_ERR_REPEAT", sp.name, err)
	}
	return evid.Pass()
}

// ---------------------------------------------------------------------------------------------
// free-running stress

func evalStressCache(c Case) evid.Verdict {
	for round := 0; round < c.Rounds; round++ {
		cache := service.VerifNewCache()
		base := time.Now()
		cc := Case{SkewMs: 300000, TOffUs: []int64{0, 1}}
		var wg sync.WaitGroup
		start := make(chan struct{})
		res := make([]bool, c.N)
		for g := 0; g < c.N; g++ {
			wg.Add(1)
			go func(g int) {
				defer wg.Done()
				o := Op{K: "present", C: 0, T: 0, S: 0}
				if g%4 == 3 { // a quarter present a distinct authenticator of the same client
					o.T = 1
					o.C = 0
					o.S = g // distinct service -> distinct key
				}
				sn, a := auth(base, cc, o)
				<-start
				res[g] = cache.IsReplay(sn, a)
			}(g)
		}
		close(start)
		wg.Wait()
		acc := 0
		for g := 0; g < c.N; g++ {
			if g%4 == 3 {
				if res[g] {
					return evid.Fail("false-replay", "stress round %d: a distinct authenticator was reported as replay", round)
				}
				continue
			}
			if !res[g] {
				acc++
			}
		}
		if acc != 1 {
			return evid.Fail("double-accept:concurrent", "stress round %d: %d goroutines presented the same authenticator to Cache.IsReplay at once and %d were told it is not a replay", round, c.N-c.N/4, acc)
		}
		// everything accepted must now be remembered
		for g := 0; g < c.N; g++ {
			o := Op{K: "present", C: 0, T: 0, S: 0}
			if g%4 == 3 {
				o.T, o.S = 1, g
			}
			sn, a := auth(base, cc, o)
			if !cache.IsReplay(sn, a) {
				return evid.Fail("double-accept:lost-entry", "stress round %d: an authenticator accepted during the concurrent phase was accepted again afterwards (entry lost)", round)
			}
		}
	}
	return evid.Pass()
}

func evalStressAPReq(c Case) evid.Verdict {
	c01.SamplePAC()
	for round := 0; round < c.Rounds; round++ {
		cs := c01.Base(c.EType, uint64(round)*7919+uint64(c.N), "HTTP/svc.example.com")
		m, err := cs.Mint(c01.SamplePAC())
		if err != nil {
			return evid.Fail("harness", "mint: %v", err)
		}
		kt := keytab.New()
		if err := kt.Unmarshal(m.Keytab); err != nil {
			return evid.Fail("harness", "keytab: %v", err)
		}
		// distinct authenticators (other clients) mixed in
		others := make([][]byte, c.N/4)
		for i := range others {
			oc := c01.Base(c.EType, uint64(round)*7919+uint64(c.N)+uint64(i)+1000003, "HTTP/svc.example.com")
			oc.Seed = cs.Seed // same keytab world
			om, err := oc.Mint(c01.SamplePAC())
			if err != nil {
				return evid.Fail("harness", "mint: %v", err)
			}
			others[i] = om.APReq
		}
		var wg sync.WaitGroup
		start := make(chan struct{})
		okSame := make([]bool, c.N)
		okOther := make([]bool, len(others))
		for g := 0; g < c.N; g++ {
			wg.Add(1)
			go func(g int) {
				defer wg.Done()
				var ap messages.APReq
				if ap.Unmarshal(m.APReq) != nil {
					return
				}
				st := cs.Settings(kt)
				<-start
				ok, _, _ := service.VerifyAPREQ(&ap, st)
				okSame[g] = ok
			}(g)
		}
		for i := range others {
			wg.Add(1)
			go func(i int) {
				defer wg.Done()
				var ap messages.APReq
				if ap.Unmarshal(others[i]) != nil {
					return
				}
				st := cs.Settings(kt)
				<-start
				ok, _, _ := service.VerifyAPREQ(&ap, st)
				okOther[i] = ok
			}(i)
		}
		close(start)
		wg.Wait()
		acc := 0
		for _, o := range okSame {
			if o {
				acc++
			}
		}
		if acc > 1 {
			return evid.Fail("double-accept:concurrent", "stress round %d: %d goroutines presented the same AP-REQ to VerifyAPREQ at once; %d were accepted", round, c.N, acc)
		}
		if acc == 0 {
			return evid.Fail("false-replay", "stress round %d: a fresh valid AP-REQ presented by %d goroutines was accepted by none", round, c.N)
		}
		for i, o := range okOther {
			if !o {
				return evid.Fail("false-replay", "stress round %d: distinct authenticator %d rejected while others were verified concurrently", round, i)
			}
		}
	}
	return evid.Pass()
}

// ---------------------------------------------------------------------------------------------

func ntKey(c Case) string {
	return fmt.Sprintf("%s|%d|%v|%v|%v|%v|%v", c.Mode, c.SkewMs, c.TOffUs, c.Pre, c.Threads, c.Post, c.Choices)
}

func hasRepresentation(ops ...[]Op) bool {
	seen := map[string]bool{}
	for _, l := range ops {
		for _, o := range l {
			if o.K != "present" {
				continue
			}
			k := fmt.Sprint(o.C, o.T, o.S)
			if seen[k] {
				return true
			}
			seen[k] = true
		}
	}
	return false
}

// drawTimed draws a history with real sleeps under a 400 ms skew: authenticators with client times spread over
// the window are presented in any order, time passes, clean-ups run, earlier ones are presented again. Every
// presentation is placed (by construction, from the summed sleeps) at least 70 ms inside its window.
func drawTimed(t *rapid.T) Case {
	const skew = 400
	offs := []int{}
	c := Case{Mode: "timed", SkewMs: skew, Names: rapid.IntRange(0, len(namePairs)-1).Draw(t, "names")}
	for i, n := 0, rapid.IntRange(2, 4).Draw(t, "timestamps"); i < n; i++ {
		off := rapid.SampledFrom([]int{-300, -200, -100, 0, 0, 100, 200, 320}).Draw(t, "ctime-off-ms")
		offs = append(offs, off)
		c.TOffUs = append(c.TOffUs, int64(off)*1000+int64(i)) // distinct microseconds: distinct authenticators
	}
	elapsed := 0
	inside := func(o Op) bool {
		d := elapsed - offs[o.T]
		if d < 0 {
			d = -d
		}
		return d <= skew-70
	}
	var presented []Op
	for i, n := 0, rapid.IntRange(4, 12).Draw(t, "ops"); i < n; i++ {
		switch rapid.SampledFrom([]string{"present", "present", "present", "again", "again", "again", "sleep", "sleep", "cleanup", "cleanup"}).Draw(t, "kind") {
		case "sleep":
			ms := rapid.SampledFrom([]int{100, 150, 250, 450}).Draw(t, "ms")
			if elapsed+ms <= 1100 {
				elapsed += ms
				c.Pre = append(c.Pre, Op{K: "sleep", Ms: ms})
			}
		case "cleanup":
			c.Pre = append(c.Pre, Op{K: "cleanup"})
		case "present":
			o := Op{K: "present", C: rapid.SampledFrom([]int{0, 0, 0, 1}).Draw(t, "client"), T: rapid.IntRange(0, len(offs)-1).Draw(t, "t"), S: rapid.SampledFrom([]int{0, 0, 0, 1}).Draw(t, "svc")}
			if inside(o) {
				c.Pre = append(c.Pre, o)
				presented = append(presented, o)
			}
		case "again":
			if len(presented) > 0 {
				if o := rapid.SampledFrom(presented).Draw(t, "again"); inside(o) {
					c.Pre = append(c.Pre, o)
				}
			}
		}
	}
	return c
}

func TestProp(t *testing.T) {
	r := evid.Start(t, "C02", "exploration")
	for _, k := range []string{"seq", "timed", "sched", "sched-dfs", "stress", "history", "volume", "settings"} {
		evid.Reg(r, k, Eval)
	}
	if r.Replay() {
		return
	}
	defer r.Finish()
	r.Regress()
	r.Assume("interleavings are enumerated at the granularity of the verif-tag yield points placed before each lock acquisition in service/cache.go; code that takes the cache lock without a yield point is explored only by the free-running stress tier")
	r.Assume("acceptability of a presentation is decided from clock readings taken immediately before and after the call; a case with a presentation outside or across the edge of the skew window is discarded, not judged")

	// (c) sequential histories, bounded-exhaustive: clients {0,1} x timestamps {0,1} x services {0,1} + cleanup
	maxLen := r.N(4, 5)
	alphabet := []Op{{K: "cleanup"}}
	for c := 0; c < 2; c++ {
		for ts := 0; ts < 2; ts++ {
			for s := 0; s < 2; s++ {
				alphabet = append(alphabet, Op{K: "present", C: c, T: ts, S: s})
			}
		}
	}
	r.Rule(fmt.Sprintf("seq: every history of length <= %d over {present(c,t,s) | c,t,s in {0,1}} + cleanup on a private cache (two timestamps 1 microsecond apart); non-trivial = contains a re-presentation of some key", maxLen))
	var hists [][]Op
	var gen func(prefix []Op)
	gen = func(prefix []Op) {
		if len(prefix) > 0 {
			hists = append(hists, append([]Op{}, prefix...))
		}
		if len(prefix) == maxLen {
			return
		}
		for _, o := range alphabet {
			gen(append(prefix, o))
		}
	}
	gen(nil)
	evid.Parallel(len(hists), 16, func(i int) {
		c := Case{Mode: "seq", SkewMs: 300000, TOffUs: []int64{0, 1}, Pre: hists[i], Names: (i + int(r.Seed())) % len(namePairs)}
		nt := ""
		if hasRepresentation(c.Pre) {
			nt = ntKey(c)
		}
		r.Count(nt, "mode:seq", fmt.Sprintf("len%d", len(hists[i])))
		if i%5000 == 0 {
			r.Sample("seq", c)
		}
		r.Violation("seq", c, Eval(c))
	})
	r.Exhaustive(fmt.Sprintf("sequential histories of length <= %d over 8 presentations + cleanup", maxLen))

	// long random sequential histories
	r.Rule("history: rapid-drawn histories of up to 60 operations over 3 clients x 3 timestamps x 3 services + cleanup")
	r.Rapid("history", r.N(1500, 10000), func(t *rapid.T) {
		n := rapid.IntRange(2, 60).Draw(t, "n")
		ops := []Op{}
		for i := 0; i < n; i++ {
			if rapid.IntRange(0, 7).Draw(t, "kind") == 0 {
				ops = append(ops, Op{K: "cleanup"})
			} else {
				ops = append(ops, Op{K: "present", C: rapid.IntRange(0, 2).Draw(t, "c"), T: rapid.IntRange(0, 2).Draw(t, "t"), S: rapid.IntRange(0, 2).Draw(t, "s")})
			}
		}
		c := Case{Mode: "seq", SkewMs: 300000, TOffUs: []int64{0, 1, 1000000}, Pre: ops}
		c.Zone = rapid.SampledFrom([]int{0, 0, 0, 5400, -12600, 3600, 20700}).Draw(t, "zone")
		nt := ""
		if hasRepresentation(ops) {
			nt = ntKey(c)
		}
		r.Count(nt, "mode:history")
		r.Sample("history", c)
		if r.Judge("history", c, Eval(c)) {
			t.Fatalf("violation")
		}
	})

	// timed histories: presentations late in the skew window, clean-up in between (real sleeps, small skew)
	r.Rule("timed: skew 400 ms; ctime placed at now+0.8*skew (and now, now-0.5*skew); present, [other presentations], sleep past presented+skew, cleanup, present again while |now-ctime| <= skew; run 48-way parallel")
	var timed []Case
	for _, off := range []int64{320000, 0, -200000, 200000} {
		for _, mid := range [][]Op{nil, {{K: "present", C: 1, T: 0, S: 0}}, {{K: "present", C: 0, T: 1, S: 0}}, {{K: "present", C: 0, T: 0, S: 1}}} {
			for _, sl := range []int{450, 520} {
				for rep := 0; rep < r.N(1, 6); rep++ {
					if float64(sl)-float64(off)/1000 > 400-40 {
						// the re-presentation would itself fall outside (or too near the edge of) the window
						if off <= 0 {
							continue
						}
					}
					pre := []Op{{K: "present", C: 0, T: 0, S: 0}}
					pre = append(pre, mid...)
					pre = append(pre, Op{K: "sleep", Ms: sl}, Op{K: "cleanup"}, Op{K: "present", C: 0, T: 0, S: 0})
					timed = append(timed, Case{Mode: "timed", SkewMs: 400, TOffUs: []int64{off, off + 7}, Pre: pre})
				}
			}
		}
	}
	// a younger authenticator accepted first, an older one of the same client afterwards; the older one leaves the window,
	// the clean-up runs, the younger one - still inside - comes again
	for _, xo := range []int64{0, 100000} {
		for _, yo := range []int64{-300000, -250000} {
			for _, svc := range []int{0, 1} {
				sl := 400 + int(yo/1000) + 100 // the older one is then 100 ms outside, the younger one at most 300 ms old
				timed = append(timed, Case{Mode: "timed", SkewMs: 400, TOffUs: []int64{xo, yo}, Names: int(xo/100000) + svc,
					Pre: []Op{{K: "present", C: 0, T: 0, S: 0}, {K: "present", C: 0, T: 1, S: svc}, {K: "sleep", Ms: sl}, {K: "cleanup"}, {K: "present", C: 0, T: 0, S: 0}, {K: "present", C: 0, T: 0, S: 0}}})
			}
		}
	}
	evid.Parallel(len(timed), 48, func(i int) {
		c := timed[i]
		r.Count(ntKey(c)+fmt.Sprint(i), "mode:timed", fmt.Sprintf("ctime-offset-us:%d", c.TOffUs[0]))
		r.Sample(fmt.Sprintf("timed/%d", c.TOffUs[0]), c)
		r.Violation("timed", c, Eval(c))
	})

	// rapid-drawn timed histories: several client times spread over the window, presented in any order
	r.Rule("timed-drawn: skew 400 ms; 2-4 authenticators with client times in {-300..+320 ms}; 4-12 steps from {present (client 0-1, service 0-1), present an earlier one again, sleep 100-450 ms, clean-up}, every presentation placed >= 70 ms inside its window by construction; non-trivial = an authenticator is presented again after a sleep or a clean-up")
	var drawn []Case
	r.Rapid("timed-gen", r.N(192, 4000), func(t *rapid.T) { drawn = append(drawn, drawTimed(t)) })
	evid.Parallel(len(drawn), 64, func(i int) {
		c := drawn[i]
		nt := ""
		seen := map[string]bool{}
		gap := false
		for _, o := range c.Pre {
			switch o.K {
			case "present":
				k := fmt.Sprint(o.C, o.T, o.S)
				if seen[k] && gap {
					nt = ntKey(c)
				}
				seen[k] = true
			default:
				if len(seen) > 0 {
					gap = true
				}
			}
		}
		r.Count(nt, "mode:timed-drawn", fmt.Sprintf("timed-drawn-steps:%d", len(c.Pre)))
		r.Sample("timed-drawn", c)
		r.Violation("timed", c, Eval(c))
	})

	// volume: thousands of other authenticators between an acceptance and the replay
	r.Rule("volume: an authenticator is accepted, then N others are verified inside the skew window (the same client at other microseconds / the same client towards N services / N other clients), clean-ups in between, then the first one again; N in {1500, 5000, 20000, 70000} (thorough: up to 600000)")
	vols := []int{1500, 5000, 20000, 70000}
	if r.Thorough() {
		vols = append(vols, 150000, 600000)
	}
	for vi, n := range vols {
		for ki, kind := range []string{"same-client", "same-client-other-services", "many-clients"} {
			c := Case{Mode: "volume", SkewMs: 300000, N: n, Kind: kind, Names: (vi + ki + int(r.Seed())) % len(namePairs)}
			r.Count(ntKey(c)+kind+fmt.Sprint(n), "mode:volume", "volume:"+kind)
			r.Sample("volume/"+kind, c)
			r.Violation("volume", c, Eval(c))
		}
	}
	// the same AP-REQ octets under two Settings values of one process
	r.Rule("settings: the same AP-REQ octets presented to service.VerifyAPREQ twice under two Settings values (other MaxClockSkew, PAC decoding on/off), and under the same settings with the authenticator's client time written as local time with a numeric zone offset (+0130, -0330, +0100, +0545, -0930): the second presentation must be refused as a replay")
	for et := range ref.ETypes {
		for pi := range settingsPairs {
			c := Case{Mode: "apreq-settings", N: pi, Rounds: int(r.Seed())*100 + et, EType: ref.ETypes[et]}
			r.Count(ntKey(c)+fmt.Sprint(pi, et), "mode:apreq-settings", "settings:"+settingsPairs[pi].name)
			r.Sample("settings/"+settingsPairs[pi].name, c)
			r.Violation("settings", c, Eval(c))
		}
		// the same octets twice when the authenticator's client time is written with a numeric zone offset
		for zi, z := range []int{5400, -12600, 3600, 20700, -34200} {
			c := Case{Mode: "apreq-settings", N: (zi + et) % 2 * 6, Rounds: int(r.Seed())*100 + et, EType: ref.ETypes[et], Zone: z}
			r.Count(ntKey(c)+fmt.Sprint("zone", z, et), "mode:apreq-settings", "ctime-encoding:numeric-zone-offset")
			r.Sample("settings/zone", c)
			r.Violation("settings", c, Eval(c))
		}
	}
	// cache level: every short history again with the client times arriving in a location of their own per presentation
	for _, z := range []int{5400, -12600} {
		for _, ops := range [][]Op{{{K: "present"}, {K: "present"}}, {{K: "present"}, {K: "cleanup"}, {K: "present"}}, {{K: "present"}, {K: "present", C: 1}, {K: "present"}}, {{K: "present", T: 1}, {K: "present"}, {K: "present", T: 1}, {K: "present"}}} {
			c := Case{Mode: "seq", SkewMs: 300000, TOffUs: []int64{0, 1, 1000000}, Pre: ops, Zone: z}
			r.Count(ntKey(c)+fmt.Sprint("zone", z), "mode:seq", "ctime-encoding:numeric-zone-offset")
			r.Violation("seq", c, Eval(c))
		}
	}

	// (a) schedules over the yield points
	type cfg struct {
		name     string
		pre      []Op
		threads  [][]Op
		post     []Op
		skew     int
		presleep bool
	}
	P := func(c, t, s int) Op { return Op{K: "present", C: c, T: t, S: s} }
	cfgs := []cfg{
		{"2same", nil, [][]Op{{P(0, 0, 0)}, {P(0, 0, 0)}}, []Op{P(0, 0, 0)}, 300000, false},
		{"2same-existing-client", []Op{P(0, 1, 0)}, [][]Op{{P(0, 0, 0)}, {P(0, 0, 0)}}, []Op{P(0, 0, 0), P(0, 1, 0)}, 300000, false},
		{"2diff-ctime", nil, [][]Op{{P(0, 0, 0)}, {P(0, 1, 0)}}, []Op{P(0, 0, 0), P(0, 1, 0)}, 300000, false},
		{"2diff-cname", nil, [][]Op{{P(0, 0, 0)}, {P(1, 0, 0)}}, []Op{P(0, 0, 0), P(1, 0, 0)}, 300000, false},
		{"2diff-sname", nil, [][]Op{{P(0, 0, 0)}, {P(0, 0, 1)}}, []Op{P(0, 0, 0), P(0, 0, 1)}, 300000, false},
		{"2same+cleanup", nil, [][]Op{{P(0, 0, 0)}, {P(0, 0, 0)}, {{K: "cleanup"}}}, []Op{P(0, 0, 0)}, 300000, false},
		{"new+cleanup-of-expired", []Op{P(0, 1, 0), {K: "sleep", Ms: 260}}, [][]Op{{P(0, 0, 0)}, {{K: "cleanup"}}}, []Op{P(0, 0, 0)}, 200, true},
		// the client's record holds one entry that has expired (client time behind the window from the start: the cache itself
		// does not judge the window); two presentations of a new authenticator race each other and the clean-up that drops the record
		{"2same+cleanup-of-expired", []Op{P(0, 1, 0)}, [][]Op{{P(0, 0, 0)}, {P(0, 0, 0)}, {{K: "cleanup"}}}, []Op{P(0, 0, 0)}, 300001, false},
		{"3same", nil, [][]Op{{P(0, 0, 0)}, {P(0, 0, 0)}, {P(0, 0, 0)}}, []Op{P(0, 0, 0)}, 300000, false},
		{"2same+1diff-ctime", nil, [][]Op{{P(0, 0, 0)}, {P(0, 0, 0)}, {P(0, 1, 0)}}, []Op{P(0, 0, 0), P(0, 1, 0)}, 300000, false},
		{"seq-in-thread", nil, [][]Op{{P(0, 0, 0), P(0, 0, 0)}, {P(0, 0, 0)}}, []Op{P(0, 0, 0)}, 300000, false},
	}
	mk := func(cf cfg, choices []int) Case {
		c := Case{Mode: "sched", SkewMs: cf.skew, TOffUs: []int64{0, 1}, Pre: cf.pre, Threads: cf.threads, Post: cf.post, Choices: choices}
		if cf.skew == 300001 {
			c.SkewMs, c.TOffUs = 300000, []int64{0, -300050000} // timestamp 1 lies 50 ms behind the window
		}
		if cf.presleep {
			// timestamp 1 is the old entry (presented, then expires); timestamp 0 is created 260 ms later: place it in the future so it is fresh
			c.TOffUs = []int64{260000, 0}
		}
		return c
	}
	r.Rule("sched: cooperative scheduling over the verif yield points: configurations {2/3 threads presenting same / different-ctime / different-cname / different-sname authenticators, with and without a concurrent cleanup, insertion racing a cleanup that empties the client's entry, two insertions of one authenticator racing that cleanup}; quick: DFS over all schedules of the 2-thread configurations + rapid-drawn schedules of the rest; thorough: DFS over all; non-trivial = at least one context switch between operations on the same client")
	dfsLimit := r.N(3000, 200000)
	for ci, cf := range cfgs {
		three := len(cf.threads) >= 3
		if r.Quick() && three && cf.name != "2same+cleanup" && cf.name != "2same+cleanup-of-expired" {
			continue
		}
		cf := cf
		nSched := sched.DFS(func(choices []int) []int {
			c := mk(cf, choices)
			var branch []int
			// run through Eval (judged) but we also need the branching factors: re-run cheaply via a shadow run
			v, br := evalSched(c)
			branch = br
			sw := 0
			for i := 1; i < len(choices); i++ {
				if choices[i] != 0 {
					sw++
				}
			}
			nt := ""
			if sw > 0 {
				nt = ntKey(c)
			}
			r.Count(nt, "mode:sched-dfs", "cfg:"+cf.name)
			r.Sample("sched/"+cf.name, c)
			r.Violation("sched-dfs", c, v)
			return branch
		}, dfsLimit)
		r.Extra(fmt.Sprintf("schedules_cfg_%d_%s", ci, cf.name), nSched)
		if nSched < dfsLimit {
			r.Exhaustive("all schedules of configuration " + cf.name)
		}
	}
	r.Rapid("sched", r.N(800, 4000), func(t *rapid.T) {
		cf := cfgs[rapid.IntRange(0, len(cfgs)-1).Draw(t, "cfg")]
		choices := rapid.SliceOfN(rapid.IntRange(0, 2), 0, 40).Draw(t, "choices")
		c := mk(cf, choices)
		r.Count(ntKey(c), "mode:sched-rapid", "cfg:"+cf.name)
		if r.Judge("sched", c, Eval(c)) {
			t.Fatalf("violation")
		}
	})

	// (b) free-running stress
	r.Rule("stress: N in {2,3,8,16} goroutines present the same authenticator (a quarter present distinct ones) behind a start barrier, to Cache.IsReplay on a private cache and to service.VerifyAPREQ with minted AP-REQs; exactly one acceptance per authenticator, all accepted ones remembered afterwards")
	for _, n := range []int{2, 3, 8, 16} {
		c := Case{Mode: "stress-cache", N: n, Rounds: r.N(400, 6000)}
		r.Count(fmt.Sprintf("stress-cache|%d", n), "mode:stress-cache")
		r.Sample("stress-cache", c)
		r.Violation("stress", c, Eval(c))
		for _, et := range []int32{ref.AES256SHA1, ref.RC4} {
			c := Case{Mode: "stress-apreq", N: n, Rounds: r.N(120, 2500), EType: et}
			r.Count(fmt.Sprintf("stress-apreq|%d|%d", n, et), "mode:stress-apreq")
			r.Sample("stress-apreq", c)
			r.Violation("stress", c, Eval(c))
		}
	}
	discarded.Lock()
	r.Extra("discarded_window_straddle", discarded.n)
	discarded.Unlock()
}

// evalSched is Eval for sched mode that also returns the branching factors for DFS.
func evalSched(c Case) (evid.Verdict, []int) {
	var branch []int
	v := evid.SafeEval(func() evid.Verdict {
		cache := service.VerifNewCache()
		base := time.Now()
		var hist []rec
		var mu sync.Mutex
		for _, o := range c.Pre {
			exec(cache, base, c, o, -1, &hist, &mu)
		}
		bodies := []func(){}
		for ti, ops := range c.Threads {
			ti, ops := ti, ops
			bodies = append(bodies, func() {
				for _, o := range ops {
					exec(cache, base, c, o, ti, &hist, &mu)
				}
			})
		}
		yieldMu.Lock()
		br, tr, err := sched.Run(bodies, c.Choices, func(f func(string)) { service.VerifYield = f })
		yieldMu.Unlock()
		branch = br
		if err != nil {
			return evid.Fail("blocked", "%v", err)
		}
		for _, o := range c.Post {
			exec(cache, base, c, o, -2, &hist, &mu)
		}
		return judge(c, base, hist, tr)
	})
	return v, branch
}
