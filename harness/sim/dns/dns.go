// Package dns is a minimal in-process DNS responder (A and SRV records) and the switch that points the Go resolver of
// this process at it, so that host names in a configuration resolve without any network: to one address, to several,
// or not at all.
package dns

import (
	"context"
	"encoding/binary"
	"net"
	"strings"
	"sync"
)

// Server answers A queries from its table; everything else gets an empty answer, unknown names NXDOMAIN.
type Server struct {
	mu      sync.Mutex
	records map[string][]net.IP // lower-case FQDN without the trailing dot
	srv     map[string][]SRV
	conn    *net.UDPConn
	Addr    string
	Queries int
}

// SRV is one service record: a target host (resolved through its own A record) and a port.
type SRV struct {
	Target string
	Port   int
}

var (
	once   sync.Once
	global *Server
	gerr   error
)

// Global starts (once per process) a server on a loopback port and makes it the resolver of the process.
func Global() (*Server, error) {
	once.Do(func() {
		c, err := net.ListenUDP("udp", &net.UDPAddr{IP: net.IPv4(127, 0, 0, 1), Port: 0})
		if err != nil {
			gerr = err
			return
		}
		s := &Server{records: map[string][]net.IP{}, srv: map[string][]SRV{}, conn: c, Addr: c.LocalAddr().String()}
		go s.serve()
		net.DefaultResolver = &net.Resolver{PreferGo: true, Dial: func(ctx context.Context, network, address string) (net.Conn, error) {
			var d net.Dialer
			return d.DialContext(ctx, "udp", s.Addr)
		}}
		global = s
	})
	return global, gerr
}

// Set gives a name its addresses (in the order they are to be returned).
func (s *Server) Set(name string, ips ...string) {
	s.mu.Lock()
	defer s.mu.Unlock()
	var l []net.IP
	for _, ip := range ips {
		l = append(l, net.ParseIP(ip).To4())
	}
	s.records[strings.ToLower(strings.TrimSuffix(name, "."))] = l
}

// SetSRV publishes service records under a name such as _kerberos._tcp.example.com (all with priority 0, weight 1).
func (s *Server) SetSRV(name string, recs ...SRV) {
	s.mu.Lock()
	defer s.mu.Unlock()
	s.srv[strings.ToLower(strings.TrimSuffix(name, "."))] = recs
}

func (s *Server) serve() {
	buf := make([]byte, 1500)
	for {
		n, from, err := s.conn.ReadFromUDP(buf)
		if err != nil {
			return
		}
		if rep := s.answer(buf[:n]); rep != nil {
			s.conn.WriteToUDP(rep, from)
		}
	}
}

func (s *Server) answer(q []byte) []byte {
	if len(q) < 12 || binary.BigEndian.Uint16(q[4:]) != 1 {
		return nil
	}
	// question
	p := 12
	var labels []string
	for {
		if p >= len(q) {
			return nil
		}
		l := int(q[p])
		p++
		if l == 0 {
			break
		}
		if l&0xc0 != 0 || p+l > len(q) {
			return nil
		}
		labels = append(labels, string(q[p:p+l]))
		p += l
	}
	if p+4 > len(q) {
		return nil
	}
	qtype := binary.BigEndian.Uint16(q[p:])
	qend := p + 4
	name := strings.ToLower(strings.Join(labels, "."))
	s.mu.Lock()
	s.Queries++
	ips, known := s.records[name]
	srvs, knownSRV := s.srv[name]
	s.mu.Unlock()
	known = known || knownSRV
	rep := append([]byte{}, q[:qend]...)
	rep[2], rep[3] = 0x85, 0x80 // response, authoritative, recursion desired + available, NOERROR
	binary.BigEndian.PutUint16(rep[6:], 0)
	binary.BigEndian.PutUint16(rep[8:], 0)
	binary.BigEndian.PutUint16(rep[10:], 0)
	if !known {
		rep[3] = 0x83 // NXDOMAIN
		return rep
	}
	if qtype == 33 {
		binary.BigEndian.PutUint16(rep[6:], uint16(len(srvs)))
		for _, r := range srvs {
			var target []byte
			for _, l := range strings.Split(strings.TrimSuffix(r.Target, "."), ".") {
				target = append(append(target, byte(len(l))), l...)
			}
			target = append(target, 0)
			rep = append(rep, 0xc0, 0x0c, 0, 33, 0, 1, 0, 0, 0, 0)
			rep = binary.BigEndian.AppendUint16(rep, uint16(6+len(target)))
			rep = append(rep, 0, 0, 0, 1)
			rep = binary.BigEndian.AppendUint16(rep, uint16(r.Port))
			rep = append(rep, target...)
		}
		return rep
	}
	if qtype != 1 {
		return rep // no records of that type
	}
	binary.BigEndian.PutUint16(rep[6:], uint16(len(ips)))
	for _, ip := range ips {
		rep = append(rep, 0xc0, 0x0c, 0, 1, 0, 1, 0, 0, 0, 0, 0, 4)
		rep = append(rep, ip...)
	}
	return rep
}
