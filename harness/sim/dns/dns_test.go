package dns

import (
	"net"
	"testing"
)

func TestResolve(t *testing.T) {
	s, err := Global()
	if err != nil {
		t.Fatal(err)
	}
	s.Set("one.verif.test", "127.9.9.1")
	s.Set("three.verif.test", "127.9.9.1", "127.9.9.2", "127.9.9.3")
	for name, want := range map[string]int{"one.verif.test": 1, "three.verif.test": 3} {
		a, err := net.LookupHost(name)
		if err != nil || len(a) != want {
			t.Fatalf("%s: %v %v", name, a, err)
		}
	}
	if a, err := net.LookupHost("three.verif.test"); err != nil || a[0] != "127.9.9.1" || a[2] != "127.9.9.3" {
		t.Fatalf("order: %v %v", a, err)
	}
	if _, err := net.LookupHost("nowhere.verif.test"); err == nil {
		t.Fatal("unknown name resolved")
	}
}
