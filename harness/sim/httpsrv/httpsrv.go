// Package httpsrv is a scripted HTTP server for exercising an SPNEGO HTTP client: one or more real
// loopback listeners ("hosts") that share one request counter, read every request body completely
// before replying, answer according to a script (a function of the request's sequence number) and
// record everything they receive and send.
package httpsrv

import (
	"fmt"
	"io"
	"net"
	"net/http"
	"sort"
	"strconv"
	"sync"
	"time"
)

// Step is one letter of the script alphabet.
type Step string

// The alphabet of server behaviours.
const (
	OK         Step = "200"
	Challenge  Step = "401-negotiate"        // 401, WWW-Authenticate: Negotiate
	Reject     Step = "401-negotiate-reject" // 401, WWW-Authenticate: Negotiate <NegTokenResp reject>
	Basic      Step = "401-basic"            // 401, WWW-Authenticate: Basic realm=x
	RedirSame  Step = "302-same-host"
	RedirOther Step = "302-other-host" // to the other listener
	Error500   Step = "500"
	// further redirects (outside the seven-letter alphabet that is enumerated exhaustively)
	Redir307Same  Step = "307-same-host" // method and body are kept
	Redir307Other Step = "307-other-host"
	Redir308Same  Step = "308-same-host"
	Redir303Same  Step = "303-same-host"
	Redir301Other Step = "301-other-host"
	// ChallengeEarly answers 401 Negotiate without reading the request body first (a server that decides on the headers
	// alone; with "Expect: 100-continue" the client then never sends the body of that attempt)
	ChallengeEarly Step = "401-negotiate-early"
)

// IsChallenge reports whether a step is a bare Negotiate challenge.
func (s Step) IsChallenge() bool { return s == Challenge || s == ChallengeEarly }

// Alphabet lists the seven basic steps.
var Alphabet = []Step{OK, Challenge, Reject, Basic, RedirSame, RedirOther, Error500}

// MoreRedirects lists the redirect steps beyond 302.
var MoreRedirects = []Step{Redir307Same, Redir307Other, Redir308Same, Redir303Same, Redir301Other}

// RejectToken is the WWW-Authenticate value of a rejected negotiation: NegTokenResp { negState reject }.
const RejectToken = "Negotiate oQcwBaADCgEC"

// Final reports whether a step is a response that gives a client nothing further to do.
func (s Step) Final() bool { return s == OK || s == Reject || s == Basic || s == Error500 }

// Redirect reports whether a step is a redirect.
func (s Step) Redirect() bool { return s.redirectStatus() != 0 }

// KeepsMethod reports whether a step is a redirect that obliges the client to repeat method and body (307, 308).
func (s Step) KeepsMethod() bool { return s == Redir307Same || s == Redir307Other || s == Redir308Same }

func (s Step) redirectStatus() int {
	switch s {
	case RedirSame, RedirOther:
		return 302
	case Redir307Same, Redir307Other:
		return 307
	case Redir308Same:
		return 308
	case Redir303Same:
		return 303
	case Redir301Other:
		return 301
	}
	return 0
}

func (s Step) otherHost() bool { return s == RedirOther || s == Redir307Other || s == Redir301Other }

// Script is a prefix followed by a constant tail (or, when Cycle is set, by that cycle of steps repeated
// for ever); from request Bound+1 on the server answers 200, so that a client with no bound on its own
// retries still terminates.
type Script struct {
	Prefix []Step
	Tail   Step
	Cycle  []Step
	Bound  int
}

// At returns the step answering request number seq (1-based) and whether the bound was exceeded.
func (s Script) At(seq int) (Step, bool) {
	if s.Bound > 0 && seq > s.Bound {
		return OK, true
	}
	if seq <= len(s.Prefix) {
		return s.Prefix[seq-1], false
	}
	if len(s.Cycle) > 0 {
		return s.Cycle[(seq-len(s.Prefix)-1)%len(s.Cycle)], false
	}
	return s.Tail, false
}

// Request is the record of one exchange.
type Request struct {
	Seq              int // 1-based, across all hosts
	Host             int // index of the listener that received it
	Method           string
	RequestURI       string
	HostHeader       string
	Proto            string
	Header           http.Header
	Body             []byte
	Unread           bool   // the server answered without reading the body (ChallengeEarly)
	BodyErr          string // error while reading the body ("" = read to EOF)
	ContentLength    int64
	TransferEncoding []string
	RemoteAddr       string
	// the reply
	Step        Step
	OverBound   bool
	Status      int
	Location    string
	ReplyBody   string
	ReplyHeader http.Header
}

type host struct {
	ln      net.Listener
	srv     *http.Server
	urlHost string // host:port as it appears in URLs
}

// Server is a set of listeners driven by one script.
type Server struct {
	Script Script

	mu      sync.Mutex
	hosts   []*host
	reqs    []Request
	arrived int
	wg      sync.WaitGroup
}

// HostSpec describes one listener: the loopback address to bind (port chosen by the system) and
// the name under which URLs refer to it ("" = the address itself).
type HostSpec struct {
	ListenIP string
	URLName  string
}

// Start binds the listeners and begins serving.
func Start(script Script, specs ...HostSpec) (*Server, error) {
	s := &Server{Script: script}
	for i, sp := range specs {
		ln, err := net.Listen("tcp", net.JoinHostPort(sp.ListenIP, "0"))
		if err != nil {
			s.Stop()
			return nil, err
		}
		name := sp.URLName
		if name == "" {
			name = sp.ListenIP
		}
		port := ln.Addr().(*net.TCPAddr).Port
		h := &host{ln: ln, urlHost: net.JoinHostPort(name, strconv.Itoa(port))}
		idx := i
		h.srv = &http.Server{Handler: http.HandlerFunc(func(w http.ResponseWriter, r *http.Request) { s.handle(idx, w, r) }),
			ReadHeaderTimeout: 20 * time.Second}
		s.hosts = append(s.hosts, h)
		s.wg.Add(1)
		go func() { defer s.wg.Done(); h.srv.Serve(ln) }()
	}
	return s, nil
}

// Stop closes listeners and connections.
func (s *Server) Stop() {
	for _, h := range s.hosts {
		if h.srv != nil {
			h.srv.Close()
		} else if h.ln != nil {
			h.ln.Close()
		}
	}
	s.wg.Wait()
}

// URLHost is the host:port of listener i as used in URLs.
func (s *Server) URLHost(i int) string { return s.hosts[i].urlHost }

// URL builds a URL on listener i.
func (s *Server) URL(i int, path string) string { return "http://" + s.hosts[i].urlHost + path }

// Requests returns a copy of the records.
func (s *Server) Requests() []Request {
	s.mu.Lock()
	defer s.mu.Unlock()
	return append([]Request{}, s.reqs...)
}

// Count is the number of requests received so far.
func (s *Server) Count() int {
	s.mu.Lock()
	defer s.mu.Unlock()
	return len(s.reqs)
}

// ReplyBodyFor is the response body the server sends for request seq answered with step.
func ReplyBodyFor(seq int, step Step) string { return fmt.Sprintf("reply %d: %s\n", seq, step) }

func (s *Server) handle(idx int, w http.ResponseWriter, r *http.Request) {
	// the sequence number is given on arrival; the whole body is read before the reply (early replies would make the
	// capture timing-dependent) unless the step says otherwise
	s.mu.Lock()
	s.arrived++
	seq := s.arrived
	s.mu.Unlock()
	step, over := s.Script.At(seq)
	rec := Request{Seq: seq, Host: idx, Method: r.Method, RequestURI: r.RequestURI, HostHeader: r.Host, Proto: r.Proto, Header: r.Header.Clone(),
		ContentLength: r.ContentLength, TransferEncoding: append([]string{}, r.TransferEncoding...), RemoteAddr: r.RemoteAddr}
	if step == ChallengeEarly && !over {
		rec.Unread = true
	} else {
		body, berr := io.ReadAll(io.LimitReader(r.Body, 64<<20))
		rec.Body = body
		if berr != nil {
			rec.BodyErr = berr.Error()
		}
	}
	s.mu.Lock()
	rec.Step, rec.OverBound = step, over
	h := w.Header()
	h.Set("Content-Type", "text/plain")
	h.Set("X-Seq", strconv.Itoa(rec.Seq))
	switch step {
	case OK:
		rec.Status = 200
	case Challenge, ChallengeEarly:
		rec.Status = 401
		h.Set("WWW-Authenticate", "Negotiate")
	case Reject:
		rec.Status = 401
		h.Set("WWW-Authenticate", RejectToken)
	case Basic:
		rec.Status = 401
		h.Set("WWW-Authenticate", "Basic realm=x")
	case RedirSame, RedirOther, Redir307Same, Redir307Other, Redir308Same, Redir303Same, Redir301Other:
		rec.Status = step.redirectStatus()
		target := idx
		if step.otherHost() && len(s.hosts) > 1 {
			target = (idx + 1) % len(s.hosts)
		}
		rec.Location = "http://" + s.hosts[target].urlHost + "/hop" + strconv.Itoa(rec.Seq)
		h.Set("Location", rec.Location)
	case Error500:
		rec.Status = 500
	}
	rec.ReplyBody = ReplyBodyFor(rec.Seq, step)
	rec.ReplyHeader = h.Clone()
	s.reqs = append(s.reqs, rec)
	sort.Slice(s.reqs, func(i, j int) bool { return s.reqs[i].Seq < s.reqs[j].Seq })
	s.mu.Unlock()
	h.Set("Content-Length", strconv.Itoa(len(rec.ReplyBody)))
	w.WriteHeader(rec.Status)
	if r.Method != http.MethodHead {
		io.WriteString(w, rec.ReplyBody)
	}
}
