// Package kdc is a simulated Kerberos KDC (RFC 4120 §3.1–3.3, RFC 6806 referrals) built on the
// reference DER codec and reference crypto only. It decodes requests strictly, keeps a log of
// every request seen and every ticket issued, supports pre-authentication policies, lifetime
// policies, cross-realm referral chains and renewals, and lets a check alter each reply through a
// hook before it is encoded and encrypted.
package kdc

import (
	"bytes"
	"fmt"
	"strings"
	"sync"
	"sync/atomic"
	"time"

	"verif/harness/kgen"
	"verif/harness/mint"
	"verif/harness/ref/der"
	ref "verif/harness/ref/krbcrypto"
)

// Error codes used by the simulator.
const (
	ErrCPrincipalUnknown = 6
	ErrSPrincipalUnknown = 7
	ErrETypeNoSupp       = 14
	ErrPreauthFailed     = 24
	ErrPreauthRequired   = 25
	ErrBadIntegrity      = 31
	ErrTktExpired        = 32
	ErrBadMatch          = 36
	ErrModified          = 41
	ErrGeneric           = 60
	ErrWrongRealm        = 68
	ErrResponseTooBig    = 52
)

// Principal is a client or service known to a realm.
type Principal struct {
	Name     string // "alice", "HTTP/web.example.com", "krbtgt/REALM"
	Password string // clients: keys are derived with Salt and Iter
	Salt     *string
	Iter     uint32 // 0 = etype default
	KVNO     int
	seed     uint64
}

// Life is a lifetime decision for one issuance, as offsets from "now".
type Life struct {
	StartOff  time.Duration
	EndOff    time.Duration
	RenewOff  time.Duration // 0 = not renewable
	OmitStart bool
}

// Policy of a realm.
type Policy struct {
	PreauthRequired bool
	InfoSalt        bool // advertise the salt in PA-ETYPE-INFO2
	InfoParams      bool // advertise s2kparams
	OmitErrCName    bool // leave the optional cname/crealm out of KRB-ERROR
	ETypes          []int32
	TicketEType     int32 // etype of ticket enc-parts
	MaxLife         time.Duration
	MaxRenew        time.Duration
	Lenient         bool          // accept a TGS authenticator whose crealm differs from the ticket's, but record it
	SendEncPARep    bool          // RFC 6806 §11: answer PA-REQ-ENC-PA-REP
	ExpiredGrace    time.Duration // a presented ticket is still honoured this long after its end time (KDCs apply their clock skew here)
	// LegacyInfo: the pre-authentication hints also carry a PA-ETYPE-INFO for old clients that names ANOTHER etype (and
	// another salt) than the PA-ETYPE-INFO2: "after" = behind the ETYPE-INFO2, "before" = in front of it. RFC 4120
	// 5.2.7.5: a client that understands ETYPE-INFO2 ignores the ETYPE-INFO.
	LegacyInfo string
	// InfoParamsRaw: when set, these octets are advertised as s2kparams in PA-ETYPE-INFO2 whatever the principal's real
	// iteration count is (a KDC, or somebody answering for it, asking for an absurd amount of work).
	InfoParamsRaw []byte
}

// Issued is one entry of the issue log.
type Issued struct {
	Kind      string // AS | TGS | RENEW | REFERRAL
	Realm     string
	CName     string
	CRealm    string
	SName     string // sname of the ticket
	ReqSName  string // sname asked for
	Ticket    []byte // DER
	Session   mint.Key
	Start     time.Time
	End       time.Time
	RenewTill time.Time
	Flags     uint32
	At        time.Time
}

// Seen is one request received.
type Seen struct {
	Kind       string // AS | TGS
	Realm      string
	Raw        []byte
	Req        der.M
	DecodeErr  string // strict decoding failure (the request is non-conformant)
	Problems   []string
	At         time.Time
	PreauthOK  bool
	AuthCRealm string
	TktCRealm  string
}

// ReplyCtx is handed to the Mutate hook before a reply is encoded.
type ReplyCtx struct {
	Kind     string // AS | TGS
	Req      der.M
	Body     der.M
	Ticket   *mint.TicketSpec
	Enc      der.M // EncKDCRepPart value
	Rep      der.M // KDC-REP value without ticket and enc-part
	ReplyKey mint.Key
	Usage    uint32
	EncApp   *der.Type // EncASRepPart / EncTGSRepPart
	RepType  *der.Type // AS-REP / TGS-REP
	Tamper   func([]byte) []byte
	Error    *int                // set to answer with a KRB-ERROR of this code instead
	Raw      []byte              // set to answer with these bytes verbatim
	Post     func([]byte) []byte // applied to the encoded reply
}

// Realm is one simulated realm.
type Realm struct {
	Name   string
	World  *World
	Policy Policy
	// SvcRealm routes a service name to the realm that owns it (for referrals); Next gives the next hop towards a realm.
	SvcRealm map[string]string
	// AutoService names further services this realm owns without registering each (thousands of spare services);
	// AutoRoute routes such names to their realm.
	AutoService func(name string) bool
	AutoRoute   func(name string) (string, bool)
	Next        map[string]string

	mu                 sync.Mutex
	princs             map[string]*Principal
	lives              []Life // consumed one per issuance; when empty the typed queues, then the policy default apply
	tgtLives, svcLives []Life // consumed by requests for krbtgt principals / for other principals
	Issued             []Issued
	Seen               []Seen
	Mutate             func(*ReplyCtx)
	counter            uint64
}

// World is a set of realms sharing deterministic key material.
type World struct {
	Seed   uint64
	Realms map[string]*Realm
	Now    func() time.Time
	// TGSLimit > 0 makes every KDC answer a generic error once TGSCount exceeds it, so that a client that would
	// follow referrals for ever returns and can be judged (the harness resets TGSCount per operation).
	TGSLimit int64
	TGSCount atomic.Int64
}

// NewWorld creates an empty world.
func NewWorld(seed uint64) *World {
	return &World{Seed: seed, Realms: map[string]*Realm{}, Now: time.Now}
}

// AddRealm adds a realm with its krbtgt principal.
func (w *World) AddRealm(name string, p Policy) *Realm {
	if len(p.ETypes) == 0 {
		p.ETypes = ref.ETypes
	}
	if p.TicketEType == 0 {
		p.TicketEType = ref.AES256SHA1
	}
	if p.MaxLife == 0 {
		p.MaxLife = 10 * time.Hour
	}
	if p.MaxRenew == 0 {
		p.MaxRenew = 7 * 24 * time.Hour
	}
	r := &Realm{Name: name, World: w, Policy: p, princs: map[string]*Principal{}, SvcRealm: map[string]string{}, Next: map[string]string{}}
	w.Realms[name] = r
	r.AddService("krbtgt/" + name)
	return r
}

// AddClient registers a password principal.
func (r *Realm) AddClient(name, password string, salt *string, iter uint32) *Principal {
	p := &Principal{Name: name, Password: password, Salt: salt, Iter: iter, KVNO: 1}
	r.princs[name] = p
	return p
}

// AddService registers a service with random keys for every etype.
func (r *Realm) AddService(name string) *Principal {
	p := &Principal{Name: name, KVNO: 2}
	r.princs[name] = p
	return p
}

// PushLife queues lifetime decisions for the next issuances.
func (r *Realm) PushLife(l ...Life) { r.mu.Lock(); r.lives = append(r.lives, l...); r.mu.Unlock() }

// PushTGTLife queues lifetime decisions for the next tickets requested for a krbtgt principal (logins, TGT renewals).
func (r *Realm) PushTGTLife(l ...Life) {
	r.mu.Lock()
	r.tgtLives = append(r.tgtLives, l...)
	r.mu.Unlock()
}

// PushSvcLife queues lifetime decisions for the next tickets requested for any other principal.
func (r *Realm) PushSvcLife(l ...Life) {
	r.mu.Lock()
	r.svcLives = append(r.svcLives, l...)
	r.mu.Unlock()
}

// SaltOf is the salt the KDC uses for a client.
func (r *Realm) SaltOf(p *Principal) string {
	if p.Salt != nil {
		return *p.Salt
	}
	return r.Name + strings.Join(mint.Name(p.Name), "")
}

// Key returns the long-term key of a principal for an etype.
func (r *Realm) Key(p *Principal, et int32) mint.Key {
	if p.Password != "" {
		var params []byte
		if p.Iter != 0 && et != ref.DES3 && et != ref.RC4 {
			params = []byte{byte(p.Iter >> 24), byte(p.Iter >> 16), byte(p.Iter >> 8), byte(p.Iter)}
		}
		k, err := cachedS2K(et, p.Password, r.SaltOf(p), params)
		if err != nil {
			panic("sim/kdc: s2k: " + err.Error())
		}
		return mint.Key{EType: et, Value: k}
	}
	return mint.Key{EType: et, Value: ref.RandomKey(et, kgen.DetBytes(r.World.Seed, fmt.Sprintf("kdc/%s/%s/%d", r.Name, p.Name, et), 32))}
}

var s2kCache sync.Map

func cachedS2K(et int32, pw, salt string, params []byte) ([]byte, error) {
	k := fmt.Sprintf("%d|%q|%q|%x", et, pw, salt, params)
	if v, ok := s2kCache.Load(k); ok {
		return v.([]byte), nil
	}
	key, err := ref.StringToKey(et, pw, salt, params)
	if err == nil {
		s2kCache.Store(k, key)
	}
	return key, err
}

// CrossKey is the inter-realm key for tickets krbtgt/to@from.
func (w *World) CrossKey(from, to string, et int32) mint.Key {
	return mint.Key{EType: et, Value: ref.RandomKey(et, kgen.DetBytes(w.Seed, fmt.Sprintf("xrealm/%s->%s/%d", from, to, et), 32))}
}

// Principal looks a principal up.
func (r *Realm) Principal(name string) *Principal {
	r.mu.Lock()
	defer r.mu.Unlock()
	return r.lookup(name)
}

// lookup finds a principal; services accepted by AutoService come into being when first asked for (r.mu held).
func (r *Realm) lookup(name string) *Principal {
	if p := r.princs[name]; p != nil {
		return p
	}
	if r.AutoService != nil && r.AutoService(name) {
		return r.AddService(name)
	}
	return nil
}

// svcRealm routes a service name to the realm that owns it.
func (r *Realm) svcRealm(name string) (string, bool) {
	if t, ok := r.SvcRealm[name]; ok {
		return t, true
	}
	if r.AutoRoute != nil {
		return r.AutoRoute(name)
	}
	return "", false
}

func (r *Realm) det(label string, n int) []byte {
	r.counter++
	return kgen.DetBytes(r.World.Seed^r.counter*0x9e3779b97f4a7c15, "kdc/"+r.Name+"/"+label, n)
}

func nameOf(v any) string { return strings.Join(der.NameStrings(v), "/") }

func flagSet(b []byte, n int) bool { return len(b) > n/8 && b[n/8]&(0x80>>uint(n%8)) != 0 }

// KRBError builds a KRB-ERROR.
func (r *Realm) KRBError(code int, cname any, crealm string, sname any, edata []byte, omitC bool) []byte {
	now := r.World.Now().UTC()
	m := der.M{"pvno": int64(5), "msg-type": int64(30), "stime": now.Truncate(time.Second), "susec": int64(now.Nanosecond() / 1000),
		"error-code": int64(code), "realm": r.Name}
	if sname != nil {
		m["sname"] = sname
	} else {
		m["sname"] = der.Name(2, "krbtgt", r.Name)
	}
	if !omitC {
		if cname != nil {
			m["cname"] = cname
		}
		if crealm != "" {
			m["crealm"] = crealm
		}
	}
	if edata != nil {
		m["e-data"] = edata
	}
	return der.KRBError.MustEncode(m)
}

// Handle answers one request (AS-REQ or TGS-REQ bytes) with reply bytes.
func (r *Realm) Handle(req []byte) []byte {
	r.mu.Lock()
	defer r.mu.Unlock()
	if len(req) == 0 {
		return r.KRBError(ErrGeneric, nil, "", nil, nil, true)
	}
	switch req[0] {
	case 0x6a:
		return r.handleAS(req)
	case 0x6c:
		if n := r.World.TGSCount.Add(1); r.World.TGSLimit > 0 && n > r.World.TGSLimit {
			r.Seen = append(r.Seen, Seen{Kind: "TGS", Realm: r.Name, Raw: req, At: r.World.Now(), Problems: nil})
			return r.KRBError(ErrGeneric, nil, "", nil, nil, true)
		}
		return r.handleTGS(req)
	}
	r.Seen = append(r.Seen, Seen{Kind: "?", Realm: r.Name, Raw: req, DecodeErr: "not an AS-REQ or TGS-REQ", At: r.World.Now()})
	return r.KRBError(ErrGeneric, nil, "", nil, nil, true)
}

func (r *Realm) pickEType(req []any, have func(int32) bool) int32 {
	for _, e := range req {
		et := int32(e.(int64))
		for _, s := range r.Policy.ETypes {
			if s == et && have(et) {
				return et
			}
		}
	}
	return 0
}

func (r *Realm) life(body der.M, now time.Time) (start time.Time, end time.Time, renew time.Time, omitStart bool) {
	till, _ := body["till"].(time.Time)
	opts, _ := body["kdc-options"].([]byte)
	q := &r.lives
	if len(*q) == 0 {
		q = &r.svcLives
		if sn, ok := body["sname"]; ok && sn != nil && strings.HasPrefix(nameOf(sn), "krbtgt/") {
			q = &r.tgtLives
		}
	}
	if len(*q) > 0 {
		l := (*q)[0]
		*q = (*q)[1:]
		start, end = now.Add(l.StartOff), now.Add(l.EndOff)
		if l.RenewOff != 0 {
			renew = now.Add(l.RenewOff)
		}
		return start.Truncate(time.Second), end.Truncate(time.Second), renew.Truncate(time.Second), l.OmitStart
	}
	start = now
	end = now.Add(r.Policy.MaxLife)
	if !till.IsZero() && till.Before(end) && till.After(now) {
		end = till
	}
	if flagSet(opts, 8) { // RENEWABLE
		rt, _ := body["rtime"].(time.Time)
		renew = now.Add(r.Policy.MaxRenew)
		if !rt.IsZero() && rt.Before(renew) {
			renew = rt
		}
	}
	return start.Truncate(time.Second), end.Truncate(time.Second), renew.Truncate(time.Second), false
}

func ticketFlags(opts []byte, renewable bool, extra uint32) uint32 {
	var f uint32 = extra
	if flagSet(opts, 1) {
		f |= mint.Flag(1) // forwardable
	}
	if flagSet(opts, 3) {
		f |= mint.Flag(3) // proxiable
	}
	if renewable {
		f |= mint.Flag(8)
	}
	return f
}

func (r *Realm) handleAS(raw []byte) []byte {
	now := r.World.Now().UTC()
	seen := Seen{Kind: "AS", Realm: r.Name, Raw: raw, At: now}
	defer func() { r.Seen = append(r.Seen, seen) }()
	req, err := der.ASReq.DecodeM(raw)
	if err != nil {
		seen.DecodeErr = err.Error()
		return r.KRBError(ErrGeneric, nil, "", nil, nil, true)
	}
	seen.Req = req
	body := req["req-body"].(der.M)
	cnameV, crealm := body["cname"], body["realm"].(string)
	snameV := body["sname"]
	if crealm != r.Name {
		// RFC 6806: tell the client which realm to ask
		if _, ok := r.World.Realms[crealm]; ok {
			return r.KRBError(ErrWrongRealm, cnameV, crealm, snameV, nil, false)
		}
	}
	cl := r.lookup(nameOf(cnameV))
	if cl == nil || cl.Password == "" {
		return r.KRBError(ErrCPrincipalUnknown, cnameV, crealm, snameV, nil, r.Policy.OmitErrCName)
	}
	svc := r.lookup(nameOf(snameV))
	if svc == nil {
		return r.KRBError(ErrSPrincipalUnknown, cnameV, crealm, snameV, nil, r.Policy.OmitErrCName)
	}
	et := r.pickEType(body["etype"].([]any), func(int32) bool { return true })
	if et == 0 {
		return r.KRBError(ErrETypeNoSupp, cnameV, crealm, snameV, nil, r.Policy.OmitErrCName)
	}
	ckey := r.Key(cl, et)
	info := func() []byte {
		e := der.M{"etype": int64(et)}
		if r.Policy.InfoSalt || cl.Salt != nil {
			e["salt"] = r.SaltOf(cl)
		}
		if (r.Policy.InfoParams || cl.Iter != 0) && et != ref.DES3 && et != ref.RC4 {
			it := cl.Iter
			if it == 0 {
				it = ref.DefaultIterations(et)
			}
			e["s2kparams"] = []byte{byte(it >> 24), byte(it >> 16), byte(it >> 8), byte(it)}
		}
		if r.Policy.InfoParamsRaw != nil && et != ref.DES3 && et != ref.RC4 {
			e["s2kparams"] = append([]byte{}, r.Policy.InfoParamsRaw...)
		}
		return der.ETypeInfo2.MustEncode([]any{e})
	}
	methodData := func() []byte {
		els := []any{der.M{"padata-type": int64(19), "padata-value": info()}, der.M{"padata-type": int64(2), "padata-value": []byte{}}}
		if r.Policy.LegacyInfo != "" {
			other := int32(ref.DES3)
			if et == ref.DES3 {
				other = ref.RC4
			}
			legacy := der.M{"padata-type": int64(11), "padata-value": der.ETypeInfo.MustEncode([]any{der.M{"etype": int64(other), "salt": []byte("legacy-salt-for-old-clients")}})}
			if r.Policy.LegacyInfo == "before" {
				els = append([]any{legacy}, els...)
			} else {
				els = append(els, legacy)
			}
		}
		return der.PADataSeq.MustEncode(els)
	}
	// pre-authentication
	var paTS []byte
	wantsEncPARep := false
	if pas, ok := req["padata"].([]any); ok {
		for _, p := range pas {
			pm := p.(der.M)
			switch pm["padata-type"].(int64) {
			case 2:
				paTS = pm["padata-value"].([]byte)
			case 149:
				wantsEncPARep = true
			}
		}
	}
	if paTS == nil && r.Policy.PreauthRequired {
		return r.KRBError(ErrPreauthRequired, cnameV, crealm, snameV, methodData(), r.Policy.OmitErrCName)
	}
	if paTS != nil {
		ed, err := der.EncryptedData.DecodeM(paTS)
		if err != nil {
			seen.Problems = append(seen.Problems, "PA-ENC-TIMESTAMP is not a conformant EncryptedData: "+err.Error())
			return r.KRBError(ErrPreauthFailed, cnameV, crealm, snameV, nil, r.Policy.OmitErrCName)
		}
		pet := int32(ed["etype"].(int64))
		plain, _, err := ref.Decrypt(pet, r.Key(cl, pet).Value, 1, ed["cipher"].([]byte))
		if err != nil {
			seen.Problems = append(seen.Problems, fmt.Sprintf("PA-ENC-TIMESTAMP does not decrypt under the client's etype-%d key with usage 1", pet))
			return r.KRBError(ErrPreauthFailed, cnameV, crealm, snameV, methodData(), r.Policy.OmitErrCName)
		}
		ts, err := decodePrefix(der.PAEncTSEnc, plain)
		if err != nil {
			seen.Problems = append(seen.Problems, "PA-ENC-TS-ENC not conformant: "+err.Error())
			return r.KRBError(ErrPreauthFailed, cnameV, crealm, snameV, nil, r.Policy.OmitErrCName)
		}
		pt := ts["patimestamp"].(time.Time)
		if d := now.Sub(pt); d > 5*time.Minute || d < -5*time.Minute {
			seen.Problems = append(seen.Problems, fmt.Sprintf("PA-ENC-TIMESTAMP %v is outside the skew (now %v)", pt, now))
			return r.KRBError(ErrPreauthFailed, cnameV, crealm, snameV, nil, r.Policy.OmitErrCName)
		}
		seen.PreauthOK = true
	}
	start, end, renew, omitStart := r.life(body, now)
	opts := body["kdc-options"].([]byte)
	sess := mint.Key{EType: et, Value: ref.RandomKey(et, r.det("session", 32))}
	kv := svc.KVNO
	tflags := ticketFlags(opts, !renew.IsZero(), mint.Flag(9)|mint.Flag(10)) // initial, pre-authent
	tk := &mint.TicketSpec{Realm: r.Name, SName: nameOf(snameV), SNameType: 2, KVNO: &kv, EncKey: r.Key(svc, r.Policy.TicketEType), Conf: r.det("tconf", 16),
		Flags: tflags, Session: sess, CRealm: r.Name, CName: nameOf(cnameV), CNameType: 1, AuthTime: now.Truncate(time.Second), EndTime: end}
	if !omitStart {
		tk.StartTime = &start
	}
	if !renew.IsZero() {
		tk.RenewTill = &renew
	}
	var caddr []any
	if a, ok := body["addresses"].([]any); ok {
		caddr = a
		for _, x := range a {
			xm := x.(der.M)
			tk.CAddr = append(tk.CAddr, mint.Addr{Type: int32(xm["addr-type"].(int64)), Data: xm["address"].([]byte)})
		}
	}
	enc := der.M{"key": der.M{"keytype": int64(et), "keyvalue": sess.Value}, "last-req": []any{der.M{"lr-type": int64(0), "lr-value": now.Truncate(time.Second)}},
		"nonce": body["nonce"], "flags": mint.Flags32(tflags), "authtime": now.Truncate(time.Second), "endtime": end, "srealm": r.Name, "sname": snameV}
	if !omitStart {
		enc["starttime"] = start
	}
	if !renew.IsZero() {
		enc["renew-till"] = renew
	}
	if caddr != nil {
		enc["caddr"] = caddr
	}
	if wantsEncPARep && r.Policy.SendEncPARep {
		ck, _ := ref.Checksum(ref.CksumForEType(et), ckey.Value, 56, raw)
		cks := der.Checksum.MustEncode(der.M{"cksumtype": int64(ref.CksumForEType(et)), "checksum": ck})
		enc["flags"] = mint.Flags32(tflags | mint.Flag(15))
		enc["encrypted-pa-data"] = []any{der.M{"padata-type": int64(149), "padata-value": cks}, der.M{"padata-type": int64(136), "padata-value": []byte{}}}
	}
	rep := der.M{"pvno": int64(5), "msg-type": int64(11), "crealm": r.Name, "cname": cnameV}
	if cl.Salt != nil || cl.Iter != 0 || r.Policy.InfoSalt {
		rep["padata"] = []any{der.M{"padata-type": int64(19), "padata-value": info()}}
	}
	ctx := &ReplyCtx{Kind: "AS", Req: req, Body: body, Ticket: tk, Enc: enc, Rep: rep, ReplyKey: ckey, Usage: 3, EncApp: der.EncASRepPart, RepType: der.ASRep}
	return r.finish(ctx, "AS", nameOf(snameV))
}

// decodePrefix decodes a value that may be followed by zero padding (des3 plaintexts).
func decodePrefix(t *der.Type, b []byte) (der.M, error) {
	n, _, err := der.ParseOne(b)
	if err != nil {
		return nil, err
	}
	return t.DecodeM(n.Raw)
}

func (r *Realm) finish(ctx *ReplyCtx, kind, reqSName string) []byte {
	if r.Mutate != nil {
		r.Mutate(ctx)
	}
	if ctx.Raw != nil {
		return ctx.Raw
	}
	if ctx.Error != nil {
		return r.KRBError(*ctx.Error, ctx.Body["cname"], r.Name, ctx.Body["sname"], nil, false)
	}
	tv := ctx.Ticket.Value()
	encPlain := ctx.EncApp.MustEncode(ctx.Enc)
	ed := mint.EncData(ctx.ReplyKey, ctx.Usage, encPlain, r.det("rconf", 16), nil)
	if ctx.Tamper != nil {
		ed["cipher"] = ctx.Tamper(ed["cipher"].([]byte))
	}
	ctx.Rep["ticket"] = tv
	ctx.Rep["enc-part"] = ed
	out := ctx.RepType.MustEncode(ctx.Rep)
	if ctx.Post != nil {
		out = ctx.Post(out)
	}
	is := Issued{Kind: kind, Realm: r.Name, CName: ctx.Ticket.CName, CRealm: ctx.Ticket.CRealm, SName: ctx.Ticket.SName, ReqSName: reqSName,
		Ticket: der.Ticket.MustEncode(tv), Session: ctx.Ticket.Session, End: ctx.Ticket.EndTime, Flags: ctx.Ticket.Flags, At: r.World.Now()}
	if ctx.Ticket.StartTime != nil {
		is.Start = *ctx.Ticket.StartTime
	} else {
		is.Start = ctx.Ticket.AuthTime
	}
	if ctx.Ticket.RenewTill != nil {
		is.RenewTill = *ctx.Ticket.RenewTill
	}
	r.Issued = append(r.Issued, is)
	return out
}

func (r *Realm) handleTGS(raw []byte) []byte {
	now := r.World.Now().UTC()
	seen := Seen{Kind: "TGS", Realm: r.Name, Raw: raw, At: now}
	defer func() { r.Seen = append(r.Seen, seen) }()
	req, err := der.TGSReq.DecodeM(raw)
	if err != nil {
		seen.DecodeErr = err.Error()
		return r.KRBError(ErrGeneric, nil, "", nil, nil, true)
	}
	seen.Req = req
	body := req["req-body"].(der.M)
	snameV := body["sname"]
	fail := func(code int, why string) []byte {
		seen.Problems = append(seen.Problems, why)
		return r.KRBError(code, nil, "", snameV, nil, true)
	}
	var apb []byte
	if pas, ok := req["padata"].([]any); ok {
		for _, p := range pas {
			pm := p.(der.M)
			if pm["padata-type"].(int64) == 1 {
				apb = pm["padata-value"].([]byte)
			}
		}
	}
	if apb == nil {
		return fail(ErrGeneric, "TGS-REQ without PA-TGS-REQ")
	}
	ap, err := der.APReq.DecodeM(apb)
	if err != nil {
		return fail(ErrGeneric, "PA-TGS-REQ is not a conformant AP-REQ: "+err.Error())
	}
	tkt := ap["ticket"].(der.M)
	tRealm, tSName := tkt["realm"].(string), nameOf(tkt["sname"])
	ted := tkt["enc-part"].(der.M)
	tet := int32(ted["etype"].(int64))
	// which key decrypts the presented ticket?
	var tkey mint.Key
	switch {
	case tRealm == r.Name && r.lookup(tSName) != nil:
		tkey = r.Key(r.lookup(tSName), tet)
	case tSName == "krbtgt/"+r.Name:
		tkey = r.World.CrossKey(tRealm, r.Name, tet)
	case tRealm == r.Name && strings.HasPrefix(tSName, "krbtgt/"):
		// a cross-realm TGT this KDC issued itself, presented back for renewal
		tkey = r.World.CrossKey(r.Name, strings.TrimPrefix(tSName, "krbtgt/"), tet)
	default:
		return fail(ErrGeneric, fmt.Sprintf("presented ticket %s@%s is not for this KDC", tSName, tRealm))
	}
	tplain, _, err := ref.Decrypt(tet, tkey.Value, 2, ted["cipher"].([]byte))
	if err != nil {
		return fail(ErrBadIntegrity, "presented ticket does not decrypt: "+err.Error())
	}
	etp, err := decodePrefix(der.EncTicketPart, tplain)
	if err != nil {
		return fail(ErrGeneric, "EncTicketPart: "+err.Error())
	}
	sk := etp["key"].(der.M)
	skey := mint.Key{EType: int32(sk["keytype"].(int64)), Value: sk["keyvalue"].([]byte)}
	aed := ap["authenticator"].(der.M)
	aplain, _, err := ref.Decrypt(int32(aed["etype"].(int64)), skey.Value, 7, aed["cipher"].([]byte))
	if err != nil {
		return fail(ErrBadIntegrity, "authenticator does not decrypt under the ticket session key with usage 7")
	}
	auth, err := decodePrefix(der.Authenticator, aplain)
	if err != nil {
		return fail(ErrGeneric, "Authenticator not conformant: "+err.Error())
	}
	tCName, tCRealm := nameOf(etp["cname"]), etp["crealm"].(string)
	seen.AuthCRealm, seen.TktCRealm = auth["crealm"].(string), tCRealm
	if nameOf(auth["cname"]) != tCName {
		return fail(ErrBadMatch, "authenticator cname differs from the ticket's")
	}
	if auth["crealm"].(string) != tCRealm {
		seen.Problems = append(seen.Problems, fmt.Sprintf("authenticator crealm %q differs from the ticket's crealm %q (RFC 4120 3.2.3: KRB_AP_ERR_BADMATCH)", auth["crealm"], tCRealm))
		if !r.Policy.Lenient {
			return r.KRBError(ErrBadMatch, nil, "", snameV, nil, true)
		}
	}
	ct := auth["ctime"].(time.Time)
	if d := now.Sub(ct); d > 5*time.Minute || d < -5*time.Minute {
		return fail(ErrGeneric, "authenticator time outside skew")
	}
	// checksum over the req-body bytes, usage 6
	ck, ok := auth["cksum"].(der.M)
	if !ok {
		return fail(ErrModified, "TGS authenticator has no checksum")
	}
	bodyRaw, err := rawField(raw, 4)
	if err != nil {
		return fail(ErrGeneric, "cannot locate req-body: "+err.Error())
	}
	want, cerr := ref.Checksum(int32(ck["cksumtype"].(int64)), skey.Value, 6, bodyRaw)
	if cerr != nil || !bytes.Equal(want, ck["checksum"].([]byte)) {
		return fail(ErrModified, "authenticator checksum does not cover the req-body (usage 6)")
	}
	tEnd := etp["endtime"].(time.Time)
	opts := body["kdc-options"].([]byte)
	tflags, _ := etp["flags"].([]byte)
	renewReq := flagSet(opts, 30)
	if now.After(tEnd.Add(r.Policy.ExpiredGrace)) {
		return fail(ErrTktExpired, fmt.Sprintf("presented ticket has expired %d ms ago", now.Sub(tEnd).Milliseconds()))
	}
	et := r.pickEType(body["etype"].([]any), func(int32) bool { return true })
	if et == 0 {
		return fail(ErrETypeNoSupp, "no common etype")
	}
	sname := nameOf(snameV)
	start, end, renew, omitStart := r.life(body, now)
	sess := mint.Key{EType: et, Value: ref.RandomKey(et, r.det("session", 32))}
	kind := "TGS"
	var tk *mint.TicketSpec
	mkTicket := func(tsname string, key mint.Key, kvno int) *mint.TicketSpec {
		fl := ticketFlags(opts, !renew.IsZero(), mint.Flag(10))
		t := &mint.TicketSpec{Realm: r.Name, SName: tsname, SNameType: 2, KVNO: &kvno, EncKey: key, Conf: r.det("tconf", 16),
			Flags: fl, Session: sess, CRealm: tCRealm, CName: tCName, CNameType: 1, AuthTime: etp["authtime"].(time.Time), EndTime: end}
		if !omitStart {
			t.StartTime = &start
		}
		if !renew.IsZero() {
			t.RenewTill = &renew
		}
		return t
	}
	switch {
	case renewReq:
		// renew the presented ticket: same sname, new times
		if !flagSet(tflags, 8) {
			return fail(ErrGeneric, "RENEW requested for a ticket that is not renewable")
		}
		kind = "RENEW"
		if rt, ok := etp["renew-till"].(time.Time); ok {
			if now.After(rt) {
				return fail(ErrTktExpired, "renew-till has passed")
			}
			if renew.IsZero() || renew.After(rt) {
				renew = rt
			}
		}
		if sname != tSName {
			seen.Problems = append(seen.Problems, fmt.Sprintf("RENEW request names %q but presents a ticket for %q", sname, tSName))
		}
		tk = mkTicket(tSName, tkey, r.kvnoOf(tSName))
		tk.EncKey.EType = tkey.EType
	case r.lookup(sname) != nil && !strings.HasPrefix(sname, "krbtgt/") || sname == "krbtgt/"+r.Name:
		svc := r.lookup(sname)
		tk = mkTicket(sname, r.Key(svc, r.Policy.TicketEType), svc.KVNO)
	default:
		// referral: which realm owns the service / is named by krbtgt/X ?
		target := ""
		if strings.HasPrefix(sname, "krbtgt/") {
			target = strings.TrimPrefix(sname, "krbtgt/")
		} else if t, ok := r.svcRealm(sname); ok {
			target = t
		}
		if target == "" || target == r.Name {
			return r.KRBError(ErrSPrincipalUnknown, nil, "", snameV, nil, true)
		}
		hop := target
		if n, ok := r.Next[target]; ok {
			hop = n
		}
		kind = "REFERRAL"
		tk = mkTicket("krbtgt/"+hop, r.World.CrossKey(r.Name, hop, r.Policy.TicketEType), 1)
	}
	enc := der.M{"key": der.M{"keytype": int64(et), "keyvalue": sess.Value}, "last-req": []any{der.M{"lr-type": int64(0), "lr-value": now.Truncate(time.Second)}},
		"nonce": body["nonce"], "flags": mint.Flags32(tk.Flags), "authtime": tk.AuthTime, "endtime": end, "srealm": r.Name, "sname": mint.PN(2, tk.SName)}
	if !omitStart {
		enc["starttime"] = start
	}
	if !renew.IsZero() {
		enc["renew-till"] = renew
	}
	rep := der.M{"pvno": int64(5), "msg-type": int64(13), "crealm": tCRealm, "cname": etp["cname"]}
	rkey, usage := skey, uint32(8)
	if sub, ok := auth["subkey"].(der.M); ok {
		rkey, usage = mint.Key{EType: int32(sub["keytype"].(int64)), Value: sub["keyvalue"].([]byte)}, 9
	}
	ctx := &ReplyCtx{Kind: "TGS", Req: req, Body: body, Ticket: tk, Enc: enc, Rep: rep, ReplyKey: rkey, Usage: usage, EncApp: der.EncTGSRepPart, RepType: der.TGSRep}
	return r.finish(ctx, kind, sname)
}

func (r *Realm) kvnoOf(name string) int {
	if p := r.lookup(name); p != nil {
		return p.KVNO
	}
	return 1
}

// rawField returns the raw DER bytes of the content of context field [tag] inside an
// application-tagged SEQUENCE (used to get the exact req-body bytes the client checksummed).
func rawField(msg []byte, tag int) ([]byte, error) {
	n, err := der.Parse(msg)
	if err != nil {
		return nil, err
	}
	seq, err := n.Explicit()
	if err != nil {
		return nil, err
	}
	kids, err := seq.Kids()
	if err != nil {
		return nil, err
	}
	for _, k := range kids {
		if k.Class == der.Context && k.Tag == tag {
			in, err := k.Explicit()
			if err != nil {
				return nil, err
			}
			return in.Raw, nil
		}
	}
	return nil, fmt.Errorf("field [%d] not found", tag)
}

// KRBErrorText builds a KRB-ERROR whose e-text carries a tag (the caller holds r.mu).
func (r *Realm) KRBErrorText(code int, text string) []byte {
	now := r.World.Now().UTC()
	return der.KRBError.MustEncode(der.M{"pvno": int64(5), "msg-type": int64(30), "stime": now.Truncate(time.Second), "susec": int64(now.Nanosecond() / 1000),
		"error-code": int64(code), "realm": r.Name, "sname": der.Name(2, "krbtgt", r.Name), "e-text": text})
}

// ConfOpts are the libdefaults a generated krb5.conf carries.
type ConfOpts struct {
	DefaultRealm  string
	ETypes        string // e.g. "aes256-cts-hmac-sha1-96 aes128-cts-hmac-sha1-96"
	Forwardable   bool
	Proxiable     bool
	Canonicalize  bool
	NoAddresses   bool
	RenewLifetime string // "" = unset
	TicketLife    string
	UDPPrefLimit  *int
	Extra         string
	DomainRealm   map[string]string
}

// ConfText renders a krb5.conf for the given realm -> KDC address lists.
func ConfText(o ConfOpts, kdcs map[string][]string) string {
	var b strings.Builder
	b.WriteString("[libdefaults]\n")
	fmt.Fprintf(&b, "  default_realm = %s\n  dns_lookup_realm = false\n  dns_lookup_kdc = false\n", o.DefaultRealm)
	if o.ETypes != "" {
		fmt.Fprintf(&b, "  default_tkt_enctypes = %s\n  default_tgs_enctypes = %s\n  permitted_enctypes = %s\n", o.ETypes, o.ETypes, o.ETypes)
	}
	fmt.Fprintf(&b, "  forwardable = %v\n  proxiable = %v\n  canonicalize = %v\n  noaddresses = %v\n", o.Forwardable, o.Proxiable, o.Canonicalize, o.NoAddresses)
	if o.RenewLifetime != "" {
		fmt.Fprintf(&b, "  renew_lifetime = %s\n", o.RenewLifetime)
	}
	if o.TicketLife != "" {
		fmt.Fprintf(&b, "  ticket_lifetime = %s\n", o.TicketLife)
	}
	if o.UDPPrefLimit != nil {
		fmt.Fprintf(&b, "  udp_preference_limit = %d\n", *o.UDPPrefLimit)
	}
	b.WriteString(o.Extra)
	b.WriteString("\n[realms]\n")
	names := []string{}
	for n := range kdcs {
		names = append(names, n)
	}
	sortStrings(names)
	for _, n := range names {
		fmt.Fprintf(&b, " %s = {\n", n)
		for _, a := range kdcs[n] {
			fmt.Fprintf(&b, "  kdc = %s\n", a)
		}
		b.WriteString(" }\n")
	}
	if len(o.DomainRealm) > 0 {
		b.WriteString("\n[domain_realm]\n")
		ks := []string{}
		for k := range o.DomainRealm {
			ks = append(ks, k)
		}
		sortStrings(ks)
		for _, k := range ks {
			fmt.Fprintf(&b, " %s = %s\n", k, o.DomainRealm[k])
		}
	}
	return b.String()
}

func sortStrings(s []string) {
	for i := 1; i < len(s); i++ {
		for j := i; j > 0 && s[j] < s[j-1]; j-- {
			s[j], s[j-1] = s[j-1], s[j]
		}
	}
}

// SnapshotIssued returns a copy of the issue log.
func (r *Realm) SnapshotIssued() []Issued {
	r.mu.Lock()
	defer r.mu.Unlock()
	return append([]Issued{}, r.Issued...)
}

// SnapshotSeen returns a copy of the request log.
func (r *Realm) SnapshotSeen() []Seen {
	r.mu.Lock()
	defer r.mu.Unlock()
	return append([]Seen{}, r.Seen...)
}
