package kdc

import (
	"encoding/binary"
	"fmt"
	"io"
	"net"
	"os"
	"sync"
	"sync/atomic"
	"time"
)

// Behaviour of one (KDC, transport) endpoint.
type Behaviour string

const (
	Answers     Behaviour = "answers"
	Refuses     Behaviour = "refuses"      // nothing bound: connection refused / ICMP unreachable
	ClosesEarly Behaviour = "closes-early" // TCP: accept then close; UDP: empty datagram
	Silent      Behaviour = "silent"       // reads the request, never answers
	AnswersErr  Behaviour = "krb-error"    // answers a KRB-ERROR (Code)
	TooBig      Behaviour = "too-big"      // answers KRB_ERR_RESPONSE_TOO_BIG (meaningful on UDP)
	CutsBody    Behaviour = "cuts-body"    // TCP: sends the length header and half of the reply, then closes
	CutsHeader  Behaviour = "cuts-header"  // TCP: sends two of the four length octets, then closes
)

// Endpoint is a loopback listener with a behaviour.
type Endpoint struct {
	Proto    string
	Addr     string
	Beh      Behaviour
	Code     int
	Tag      string // placed in e-text of error answers so the harness can tell which endpoint's error surfaced
	Handler  func([]byte) []byte
	ErrorFor func(code int, tag string) []byte
	Attempts atomic.Int32
	Requests atomic.Int32
	closers  []io.Closer
	wg       sync.WaitGroup
	done     chan struct{}
}

var ipCounter atomic.Uint32

// UniqueIP returns a loopback address no other case of this process uses, so that fixed port
// numbers never collide and "refuses" can be modelled by not binding at all. The second octet starts at a
// value taken from the process id, so that checks running side by side in different processes (which use the same
// port numbers) work in different /16 blocks.
func UniqueIP() string {
	n := ipCounter.Add(1)
	return fmt.Sprintf("127.%d.%d.%d", 1+(uint32(os.Getpid())+(n>>16))%120, (n>>8)&0xff, n&0xff)
}

// Start binds the endpoint (nothing to do for Refuses).
func (e *Endpoint) Start() error {
	e.done = make(chan struct{})
	if e.Beh == Refuses {
		return nil
	}
	switch e.Proto {
	case "udp":
		a, err := net.ResolveUDPAddr("udp", e.Addr)
		if err != nil {
			return err
		}
		c, err := net.ListenUDP("udp", a)
		if err != nil {
			return err
		}
		e.closers = append(e.closers, c)
		e.wg.Add(1)
		go e.serveUDP(c)
	case "tcp":
		l, err := net.Listen("tcp", e.Addr)
		if err != nil {
			return err
		}
		e.closers = append(e.closers, l)
		e.wg.Add(1)
		go e.serveTCP(l)
	}
	return nil
}

// Stop closes the endpoint.
func (e *Endpoint) Stop() {
	if e.done != nil {
		close(e.done)
	}
	for _, c := range e.closers {
		c.Close()
	}
	e.wg.Wait()
}

func (e *Endpoint) reply(req []byte) []byte {
	switch e.Beh {
	case AnswersErr:
		return e.ErrorFor(e.Code, e.Tag)
	case TooBig:
		return e.ErrorFor(ErrResponseTooBig, e.Tag)
	}
	return e.Handler(req)
}

func (e *Endpoint) serveUDP(c *net.UDPConn) {
	defer e.wg.Done()
	buf := make([]byte, 65536)
	for {
		n, from, err := c.ReadFromUDP(buf)
		if err != nil {
			return
		}
		e.Attempts.Add(1)
		e.Requests.Add(1)
		req := append([]byte{}, buf[:n]...)
		switch e.Beh {
		case Silent:
			continue
		case ClosesEarly:
			c.WriteToUDP([]byte{}, from)
			continue
		}
		c.WriteToUDP(e.reply(req), from)
	}
}

func (e *Endpoint) serveTCP(l net.Listener) {
	defer e.wg.Done()
	for {
		conn, err := l.Accept()
		if err != nil {
			return
		}
		e.Attempts.Add(1)
		e.wg.Add(1)
		go func(conn net.Conn) {
			defer e.wg.Done()
			defer conn.Close()
			if e.Beh == ClosesEarly {
				return
			}
			conn.SetDeadline(time.Now().Add(8 * time.Second))
			var hdr [4]byte
			if _, err := io.ReadFull(conn, hdr[:]); err != nil {
				return
			}
			n := binary.BigEndian.Uint32(hdr[:])
			if n > 1<<20 {
				return
			}
			req := make([]byte, n)
			if _, err := io.ReadFull(conn, req); err != nil {
				return
			}
			e.Requests.Add(1)
			if e.Beh == Silent {
				select {
				case <-e.done:
				case <-time.After(7 * time.Second):
				}
				return
			}
			rep := e.reply(req)
			out := make([]byte, 4+len(rep))
			binary.BigEndian.PutUint32(out, uint32(len(rep)))
			copy(out[4:], rep)
			switch e.Beh {
			case CutsBody:
				out = out[:4+len(rep)/2]
			case CutsHeader:
				out = out[:2]
			}
			conn.Write(out)
		}(conn)
	}
}

// Server is a KDC host: one UDP and one TCP endpoint on the same address.
type Server struct {
	Addr string
	UDP  *Endpoint
	TCP  *Endpoint
}

// NewServer creates (without starting) a KDC host for a realm on ip:port.
func NewServer(r *Realm, ip string, port int, udp, tcp Behaviour, tag string) *Server {
	addr := fmt.Sprintf("%s:%d", ip, port)
	errFor := func(code int, t string) []byte {
		r.mu.Lock()
		defer r.mu.Unlock()
		return r.KRBErrorText(code, t)
	}
	mk := func(proto string, b Behaviour) *Endpoint {
		return &Endpoint{Proto: proto, Addr: addr, Beh: b, Code: ErrGeneric, Tag: tag + "/" + proto, Handler: r.Handle, ErrorFor: errFor}
	}
	return &Server{Addr: addr, UDP: mk("udp", udp), TCP: mk("tcp", tcp)}
}

// Start both endpoints.
func (s *Server) Start() error {
	if err := s.UDP.Start(); err != nil {
		return err
	}
	return s.TCP.Start()
}

// Stop both endpoints.
func (s *Server) Stop() { s.UDP.Stop(); s.TCP.Stop() }
