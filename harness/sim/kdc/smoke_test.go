package kdc_test

import (
	"testing"

	"github.com/jcmturner/gokrb5/v8/client"
	"github.com/jcmturner/gokrb5/v8/config"

	"verif/harness/sim/kdc"
)

func TestSmoke(t *testing.T) {
	w := kdc.NewWorld(7)
	r := w.AddRealm("EXAMPLE.COM", kdc.Policy{PreauthRequired: true})
	r.AddClient("alice", "secret-Pässword", nil, 0)
	r.AddService("HTTP/web.example.com")
	ip := kdc.UniqueIP()
	s := kdc.NewServer(r, ip, 8888, kdc.Answers, kdc.Answers, "k1")
	if err := s.Start(); err != nil {
		t.Fatal(err)
	}
	defer s.Stop()
	txt := kdc.ConfText(kdc.ConfOpts{DefaultRealm: "EXAMPLE.COM", ETypes: "aes256-cts-hmac-sha1-96", NoAddresses: true}, map[string][]string{"EXAMPLE.COM": {s.Addr}})
	cfg, err := config.NewFromString(txt)
	if err != nil {
		t.Fatal(err)
	}
	cl := client.NewWithPassword("alice", "EXAMPLE.COM", "secret-Pässword", cfg, client.DisablePAFXFAST(true))
	if err := cl.Login(); err != nil {
		for _, s := range r.Seen {
			t.Logf("seen %s decodeErr=%q problems=%v", s.Kind, s.DecodeErr, s.Problems)
		}
		t.Fatalf("login: %v", err)
	}
	tkt, key, err := cl.GetServiceTicket("HTTP/web.example.com")
	if err != nil {
		for _, s := range r.Seen {
			t.Logf("seen %s decodeErr=%q problems=%v", s.Kind, s.DecodeErr, s.Problems)
		}
		t.Fatalf("service ticket: %v", err)
	}
	t.Logf("ticket for %v key type %d; issued %d, seen %d", tkt.SName.NameString, key.KeyType, len(r.Issued), len(r.Seen))
	for _, s := range r.Seen {
		if s.DecodeErr != "" || len(s.Problems) > 0 {
			t.Errorf("request problems: %s %v", s.DecodeErr, s.Problems)
		}
	}
	cl.Destroy()
}
