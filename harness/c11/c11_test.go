// C11 — one client and one configuration can be shared by goroutines safely.
// Built with -race by the driver (GORACE=halt_on_error=0 log_path=<file>): data-race reports are
// read back from the race detector's log after every scenario.
package c11

import (
	"fmt"
	"io"
	"os"
	"path/filepath"
	"reflect"
	"regexp"
	"runtime"
	"sort"
	"strconv"
	"strings"
	"sync"
	"testing"
	"time"

	"github.com/jcmturner/gokrb5/v8/messages"
	"github.com/jcmturner/gokrb5/v8/types"
	"pgregory.net/rapid"

	"verif/harness/c10"
	"verif/harness/evid"
	ref "verif/harness/ref/krbcrypto"
	"verif/harness/refcheck"
)

// Op of one goroutine's program.
type Op struct {
	K     string `json:"k"` // ticket | login | affirm | cached | destroy | getkdcs | getkpasswd | resolve | diag | print
	SPN   int    `json:"spn,omitempty"`
	Ms    int    `json:"ms,omitempty"`       // hammer / logins: how long to keep going
	Pause int    `json:"pause_ms,omitempty"` // logins: pause between two logins
}

// Scenario is one client shared by goroutines.
type Scenario struct {
	Spec    c10.Spec `json:"spec"`
	Progs   [][]Op   `json:"programs"`
	StartUs []int    `json:"start_offsets_us"`
}

// Case is a scenario, optionally with other scenarios that ran at the same time in the same process
// (long scenarios with waits are run in batches; a race report is then attributed to the batch).
type Case struct {
	Scenario
	Also   []Scenario `json:"concurrently_with,omitempty"`
	Repeat int        `json:"repeat,omitempty"` // replay: run this many times
}

var raceLogPrefix = func() string {
	for _, kv := range strings.Fields(os.Getenv("GORACE")) {
		if strings.HasPrefix(kv, "log_path=") {
			return strings.TrimPrefix(kv, "log_path=")
		}
	}
	return ""
}()

var raceRead = map[string]int64{}

// newRaceReports returns the race detector output written since the last call.
func newRaceReports() string {
	if raceLogPrefix == "" {
		return ""
	}
	files, _ := filepath.Glob(raceLogPrefix + ".*")
	var out strings.Builder
	for _, f := range files {
		b, err := os.ReadFile(f)
		if err != nil {
			continue
		}
		off := raceRead[f]
		if int64(len(b)) > off {
			out.Write(b[off:])
			raceRead[f] = int64(len(b))
		}
	}
	return out.String()
}

var frameRe = regexp.MustCompile(`(?m)^  (github\.com/jcmturner/\S+)\(\)$`)

var clientFrameRe = regexp.MustCompile(`(?m)^  (github\.com/jcmturner/gokrb5/v8/client\.\S+)\(\)$`)

// raceSignatures splits detector output into reports and keys each by the site of the racing WRITE:
// the innermost frame in package client of the writing stack (the component whose state is shared), or
// failing that its innermost gokrb5/jcmturner frame. One unsynchronised variable written in one function
// thus has one signature however many readers race with it.
func raceSignatures(out string) (sigs []string, reports []string, foreign int) {
	for _, rep := range strings.Split(out, "WARNING: DATA RACE")[1:] {
		parts := strings.Split(rep, "\n\n")
		var writes, any []string
		for _, p := range parts {
			isW := strings.Contains(p, "Write at") || strings.Contains(p, "Previous write at")
			isR := strings.Contains(p, "Read at") || strings.Contains(p, "Previous read at")
			if !isW && !isR {
				continue
			}
			fn := ""
			if m := clientFrameRe.FindStringSubmatch(p); m != nil {
				fn = m[1]
			} else if m := frameRe.FindStringSubmatch(p); m != nil {
				fn = m[1]
			}
			if fn == "" {
				continue
			}
			fn = strings.TrimPrefix(fn, "github.com/jcmturner/gokrb5/v8/")
			any = append(any, fn)
			if isW {
				writes = append(writes, fn)
			}
		}
		if len(any) == 0 {
			foreign++
			continue
		}
		if len(writes) == 0 {
			writes = any
		}
		sort.Strings(writes)
		sigs = append(sigs, "race:write-in:"+writes[0])
		reports = append(reports, "WARNING: DATA RACE"+rep)
	}
	return
}

type result struct {
	g      int
	op     Op
	tkt    messages.Ticket
	key    types.EncryptionKey
	ok     bool
	err    error
	t0, t1 time.Time
}

var overlapSeen struct {
	sync.Mutex
	n        int
	renewals int
}

// Eval runs the scenario once (or Repeat times) and checks the invariants; race reports are
// collected by the caller-side wrapper evalWithRaces.
func Eval(c Case) evid.Verdict {
	n := c.Repeat
	if n <= 0 {
		n = 1
	}
	if os.Getenv("VERIF_REPLAY") != "" && c.Repeat == 0 {
		n = 200 // schedule-dependent failures do not reproduce from the case alone: replay repeats the scenario
	}
	for i := 0; i < n; i++ {
		if v := evalWithRaces(c); !v.OK {
			return v
		}
	}
	return evid.Pass()
}

func evalWithRaces(c Case) evid.Verdict {
	newRaceReports() // discard anything left over
	v := evid.SafeEval(func() evid.Verdict {
		if len(c.Also) == 0 {
			return run(c.Scenario)
		}
		all := append([]Scenario{c.Scenario}, c.Also...)
		vs := make([]evid.Verdict, len(all))
		var wg sync.WaitGroup
		for i := range all {
			wg.Add(1)
			go func(i int) {
				defer wg.Done()
				vs[i] = evid.SafeEval(func() evid.Verdict { return run(all[i]) })
			}(i)
		}
		wg.Wait()
		for _, x := range vs {
			if !x.OK {
				return x
			}
		}
		return evid.Pass()
	})
	runtime.Gosched()
	out := newRaceReports()
	if sigs, reps, foreign := raceSignatures(out); len(sigs) > 0 {
		// report the first; the others are listed in the message
		return evid.Fail(sigs[0], "the race detector reported %d data race(s) in gokrb5 during this scenario: %v\n%s", len(sigs), sigs, firstLines(reps[0], 60))
	} else if foreign > 0 && v.OK {
		return evid.Fail("harness", "race report without gokrb5 frames (harness race?):\n%s", firstLines(out, 40))
	}
	return v
}

func firstLines(s string, n int) string {
	l := strings.Split(s, "\n")
	if len(l) > n {
		l = l[:n]
	}
	return strings.Join(l, "\n")
}

func run(c Scenario) evid.Verdict {
	w, err := c10.Build(&c.Spec)
	if err != nil {
		return evid.Fail("harness", "build: %v", err)
	}
	defer w.Stop()
	// the client's realm also names three password-change servers (nothing listens there: only their selection is exercised)
	kpw := []string{"kpw1.r0.test:464", "kpw2.r0.test:464", "kpw3.r0.test:4464"}
	for i := range w.Cfg.Realms {
		if w.Cfg.Realms[i].Realm == c10.RealmName(0) {
			w.Cfg.Realms[i].KPasswdServer = append([]string{}, kpw...)
		}
	}
	cl := w.NewClient()
	before := c10.DeepCopyConfig(w.Cfg)
	var configured []string
	for _, r := range w.Cfg.Realms {
		if r.Realm == c10.RealmName(0) {
			configured = append([]string{}, r.KDC...)
		}
	}
	sort.Strings(configured)
	var mu sync.Mutex
	var results []result
	var kdcProblems []string
	var wg sync.WaitGroup
	start := make(chan struct{})
	done := make(chan struct{})
	for g, prog := range c.Progs {
		wg.Add(1)
		go func(g int, prog []Op) {
			defer wg.Done()
			<-start
			if g < len(c.StartUs) {
				time.Sleep(time.Duration(c.StartUs[g]) * time.Microsecond)
			}
			for _, op := range prog {
				r := result{g: g, op: op, t0: time.Now()}
				switch op.K {
				case "ticket":
					r.tkt, r.key, r.err = cl.GetServiceTicket(c.Spec.SPN(op.SPN))
					r.ok = r.err == nil
				case "burst":
					// ten requests for services not asked for before, back to back: each needs the TGT and its key
					for k := 0; k < 10 && r.err == nil; k++ {
						spn := 5 + (op.SPN+k)%c10.ExtraSPNs
						t, key, err := cl.GetServiceTicket(c.Spec.SPN(spn))
						if err == nil {
							mu.Lock()
							results = append(results, result{g: g, op: Op{K: "ticket", SPN: spn}, tkt: t, key: key, ok: true, t0: r.t0, t1: time.Now()})
							mu.Unlock()
						}
					}
				case "hammer":
					// requests for services not asked for before, back to back, for op.Ms milliseconds: each needs the
					// TGT and its key, and with short-lived TGTs every goroutine renews the TGT in place when it runs low
					until := time.Now().Add(time.Duration(op.Ms) * time.Millisecond)
					for k := 0; k < 4800 && r.err == nil && time.Now().Before(until); k++ {
						spn := 5 + (op.SPN+k)%c10.ExtraSPNs
						t, key, err := cl.GetServiceTicket(c.Spec.SPN(spn))
						if err == nil {
							mu.Lock()
							results = append(results, result{g: g, op: Op{K: "ticket", SPN: spn}, tkt: t, key: key, ok: true, t0: r.t0, t1: time.Now()})
							mu.Unlock()
						}
					}
				case "cached":
					r.tkt, r.key, r.ok = cl.GetCachedTicket(c.Spec.SPN(op.SPN))
				case "login":
					r.err = cl.Login()
				case "logins":
					// back-to-back logins: each replaces the TGT and its session key while other goroutines use them
					until := time.Now().Add(time.Duration(op.Ms) * time.Millisecond)
					for k := 0; (k < op.SPN || time.Now().Before(until)) && r.err == nil; k++ {
						r.err = cl.Login()
						if op.Ms > 0 {
							time.Sleep(time.Duration(1+op.Pause) * time.Millisecond) // keep going for op.Ms
						}
					}
				case "affirm":
					r.err = cl.AffirmLogin()
				case "destroy":
					cl.Destroy()
				case "wait":
					time.Sleep(time.Duration(op.SPN) * time.Millisecond)
				case "getkdcs":
					for _, tcp := range []bool{false, true} {
						n, m, err := w.Cfg.GetKDCs(c10.RealmName(0), tcp)
						var got []string
						for i := 1; i <= n; i++ {
							got = append(got, m[i])
						}
						sort.Strings(got)
						if err != nil || n != len(configured) || len(m) != n || fmt.Sprint(got) != fmt.Sprint(configured) {
							mu.Lock()
							kdcProblems = append(kdcProblems, fmt.Sprintf("GetKDCs returned count=%d map=%v err=%v; configured %v", n, m, err, configured))
							mu.Unlock()
						}
					}
				case "getkpasswd":
					for _, tcp := range []bool{false, true} {
						n, m, err := w.Cfg.GetKpasswdServers(c10.RealmName(0), tcp)
						var got []string
						for i := 1; i <= n; i++ {
							got = append(got, m[i])
						}
						sort.Strings(got)
						if err != nil || n != len(kpw) || len(m) != n || fmt.Sprint(got) != fmt.Sprint(kpw) {
							mu.Lock()
							kdcProblems = append(kdcProblems, fmt.Sprintf("GetKpasswdServers returned count=%d map=%v err=%v; configured %v", n, m, err, kpw))
							mu.Unlock()
						}
					}
				case "resolve":
					w.Cfg.ResolveRealm("svc0.r0.test")
				case "diag":
					cl.Diagnostics(io.Discard)
				case "print":
					cl.Print(io.Discard)
				}
				r.t1 = time.Now()
				mu.Lock()
				results = append(results, r)
				mu.Unlock()
			}
		}(g, prog)
	}
	go func() { wg.Wait(); close(done) }()
	close(start)
	select {
	case <-done:
	case <-time.After(60 * time.Second):
		buf := make([]byte, 1<<20)
		n := runtime.Stack(buf, true)
		st := string(buf[:n])
		if strings.Contains(st, "github.com/jcmturner/gokrb5/v8/client") {
			return evid.Fail("deadlock:"+blockedIn(st), "the scenario did not finish within 60 s; goroutines are blocked inside gokrb5:\n%s", firstLines(st, 80))
		}
		return evid.Fail("harness", "scenario watchdog expired without gokrb5 frames")
	}
	// the final Destroy is a call on the shared client like any other: it must come back too
	destroyed := make(chan struct{})
	go func() { cl.Destroy(); close(destroyed) }()
	select {
	case <-destroyed:
	case <-time.After(30 * time.Second):
		buf := make([]byte, 1<<20)
		st := string(buf[:runtime.Stack(buf, true)])
		if strings.Contains(st, "github.com/jcmturner/gokrb5/v8/client") {
			return evid.Fail("deadlock:"+blockedIn(st), "every operation of the scenario had returned, but the final Destroy did not return within 30 s; goroutines are blocked inside gokrb5:\n%s", firstLines(st, 80))
		}
		return evid.Fail("harness", "Destroy watchdog expired without gokrb5 frames")
	}
	renewals := 0
	for _, is := range w.IssuedAll() {
		if is.Kind == "RENEW" {
			renewals++
		}
	}
	overlapSeen.Lock()
	overlapSeen.renewals += renewals
	overlapSeen.Unlock()
	// overlap measurement (non-triviality)
	overlap := false
	for i := range results {
		for j := range results {
			if results[i].g != results[j].g && results[i].t0.Before(results[j].t1) && results[j].t0.Before(results[i].t1) {
				overlap = true
			}
		}
	}
	if overlap {
		overlapSeen.Lock()
		overlapSeen.n++
		overlapSeen.Unlock()
	}
	if len(kdcProblems) > 0 {
		return evid.Fail("getkdcs-not-a-permutation", "%s", kdcProblems[0])
	}
	if !reflect.DeepEqual(before, w.Cfg) {
		return evid.Fail("config-modified", "the shared Config differs after the scenario:\n before %+v\n after  %+v", before.Realms, w.Cfg.Realms)
	}
	hasDestroy := false
	for _, prog := range c.Progs {
		for _, o := range prog {
			if o.K == "destroy" {
				hasDestroy = true
			}
		}
	}
	for _, p := range w.RequestProblems() {
		if hasDestroy {
			break // Destroy swaps the credentials under in-flight requests (known finding): their requests are not judged
		}
		if strings.Contains(p[0], "authenticator") || strings.Contains(p[0], "presented") || strings.Contains(p[0], "nonconformant") {
			// a TGS request whose ticket and session key do not belong together (torn read of a session being
			// renewed) or that is otherwise malformed
			return evid.Fail("torn-request:"+p[0], "%s", p[1])
		}
	}
	issued := w.IssuedIndex()
	for _, r := range results {
		if (r.op.K == "ticket" || r.op.K == "cached") && r.ok {
			is, why := c10.FindIssuedIn(issued, r.tkt, r.key)
			if why != "" {
				return evid.Fail("pair-not-issued", "goroutine %d %s(%s): %s", r.g, r.op.K, c.Spec.SPN(r.op.SPN), why)
			}
			if is.SName != c.Spec.SPN(r.op.SPN) {
				return evid.Fail("ticket-for-other-service", "goroutine %d asked for %s and got a ticket issued for %s", r.g, c.Spec.SPN(r.op.SPN), is.SName)
			}
		}
	}
	return evid.Pass()
}

func blockedIn(stack string) string {
	m := regexp.MustCompile(`github\.com/jcmturner/gokrb5/v8/(client\.(?:\(\*?\w+\)\.)?\w+)`).FindStringSubmatch(stack)
	if m != nil {
		return m[1]
	}
	return "unknown"
}

func drawCase(t *rapid.T, long bool) Case {
	s := c10.Spec{Seed: rapid.Uint64Range(1, 1<<40).Draw(t, "seed"), Cred: rapid.SampledFrom([]string{"password", "keytab", "keytab"}).Draw(t, "cred"),
		ETypes:  []int32{rapid.SampledFrom([]int32{ref.AES128SHA1, ref.AES256SHA1, ref.RC4, ref.AES128SHA2}).Draw(t, "etype")},
		Preauth: rapid.SampledFrom([]string{"none", "required", "assume"}).Draw(t, "preauth"), NoAddr: true, KDCs: rapid.IntRange(1, 3).Draw(t, "kdcs"),
		RenewLife: rapid.SampledFrom([]string{"", "10m"}).Draw(t, "renew"), Via: "referral", DupKDC: rapid.IntRange(0, 3).Draw(t, "dupkdc") == 0}
	if long || rapid.Bool().Draw(t, "shortTGT") {
		nl := 6
		if long {
			nl = 40 // every TGT of a long scenario is short-lived, so renewals keep happening
		}
		for i := 0; i < nl; i++ {
			s.TGTLives = append(s.TGTLives, c10.LifeSpec{StartMs: 0, EndMs: int64(rapid.SampledFrom([]int{1300, 2300}).Draw(t, "tgtlife")), RenewMs: int64(rapid.SampledFrom([]int{0, 60000}).Draw(t, "tgtrenew"))})
		}
	}
	c := Case{Scenario: Scenario{Spec: s}}
	ng := rapid.SampledFrom([]int{2, 2, 3, 4, 8, 16}).Draw(t, "goroutines")
	nspn := rapid.IntRange(1, 4).Draw(t, "spnpool")
	destroyAt := -1
	if rapid.IntRange(0, 3).Draw(t, "withdestroy") == 0 {
		destroyAt = rapid.IntRange(0, ng-1).Draw(t, "destroyer")
	}
	for g := 0; g < ng; g++ {
		var prog []Op
		n := rapid.IntRange(1, 5).Draw(t, "nops")
		if long {
			n = rapid.IntRange(5, 9).Draw(t, "nopslong")
		}
		for i := 0; i < n; i++ {
			kinds := []string{"ticket", "ticket", "ticket", "ticket", "cached", "login", "affirm", "getkdcs", "getkpasswd", "getkpasswd", "resolve", "diag", "print"}
			if long {
				kinds = append(kinds, "wait", "burst", "burst", "burst", "ticket")
			}
			k := rapid.SampledFrom(kinds).Draw(t, "op")
			op := Op{K: k}
			if k == "wait" {
				op.SPN = rapid.SampledFrom([]int{150, 400, 700, 1000}).Draw(t, "ms")
			}
			if k == "burst" {
				op.SPN = rapid.IntRange(0, c10.ExtraSPNs-1).Draw(t, "burstbase")
			}
			if k == "ticket" || k == "cached" {
				op.SPN = rapid.IntRange(0, nspn-1).Draw(t, "spn")
				if op.SPN == 3 {
					op.SPN = 3
				}
			}
			prog = append(prog, op)
			if long && k != "wait" {
				// long scenarios pace themselves so that they outlive several TGT lifetimes
				prog = append(prog, Op{K: "wait", SPN: rapid.SampledFrom([]int{200, 400, 600}).Draw(t, "pace")})
			}
		}
		if g == destroyAt {
			prog = append(prog, Op{K: "destroy"})
		}
		c.Progs = append(c.Progs, prog)
		c.StartUs = append(c.StartUs, rapid.SampledFrom([]int{0, 0, 50, 500, 2000, 5000}).Draw(t, "startoffset"))
	}
	return c
}

// drawStorm draws a scenario in which every goroutine requests tickets for services not asked for before, back to
// back for two seconds, while the TGT lives about a second and is renewable: whenever it runs low every goroutine
// renews it (the session is updated in place) while the others read the (TGT, session key) pair. One goroutine
// may instead log in again and again (the session is replaced).
func drawStorm(t *rapid.T) Case {
	s := c10.Spec{Seed: rapid.Uint64Range(1, 1<<40).Draw(t, "seed"), Cred: rapid.SampledFrom([]string{"password", "keytab"}).Draw(t, "cred"),
		ETypes:  []int32{rapid.SampledFrom([]int32{ref.AES128SHA1, ref.AES256SHA1, ref.RC4, ref.AES128SHA2}).Draw(t, "etype")},
		Preauth: rapid.SampledFrom([]string{"none", "required"}).Draw(t, "preauth"), NoAddr: true, KDCs: rapid.IntRange(1, 2).Draw(t, "kdcs"), Via: "referral", RenewLife: "10m"}
	for i := 0; i < 60; i++ {
		s.TGTLives = append(s.TGTLives, c10.LifeSpec{StartMs: 0, EndMs: int64(rapid.SampledFrom([]int{1300, 2300}).Draw(t, "tgtlife")), RenewMs: 60000})
	}
	c := Case{Scenario: Scenario{Spec: s}}
	ng := rapid.SampledFrom([]int{4, 8}).Draw(t, "goroutines")
	relogin := rapid.IntRange(0, 2).Draw(t, "relogin") == 0 || os.Getenv("C11_RELOGIN") != ""
	for g := 0; g < ng; g++ {
		dur := 2000
		if os.Getenv("C11_LONGSTORM") != "" {
			dur = 5000
		}
		prog := []Op{{K: "hammer", SPN: g * 4800, Ms: dur}}
		if g == 0 && relogin {
			prog = []Op{{K: "logins", SPN: rapid.IntRange(10, 30).Draw(t, "logins"), Ms: rapid.SampledFrom([]int{0, dur}).Draw(t, "loginsfor"),
				Pause: rapid.SampledFrom([]int{0, 50, 200}).Draw(t, "loginpause")}}
		}
		c.Progs = append(c.Progs, prog)
		c.StartUs = append(c.StartUs, rapid.SampledFrom([]int{0, 0, 50, 500}).Draw(t, "startoffset"))
	}
	return c
}

func TestProp(t *testing.T) {
	r := evid.Start(t, "C11", "exploration")
	evid.Reg(r, "scenario", Eval)
	if r.Replay() {
		return
	}
	defer r.Finish()
	if err := refcheck.All(); err != nil {
		r.Inconclusive("reference self-test failed: %v", err)
		return
	}
	if raceLogPrefix == "" {
		r.Inconclusive("the race detector log path is not configured (GORACE=log_path=...): run through ./check")
		return
	}
	r.Regress()
	r.Assume("free-running execution under the Go race detector samples schedules; it cannot show the absence of races; a race is attributed to the scenario during which the detector reported it and keyed by the innermost gokrb5 functions of its two stacks; the detector reports each racing pair once per process")
	r.Rule("scenario: 2-16 goroutines sharing one client and one Config, each running 1-5 operations from {GetServiceTicket (SPN pool 1-4), GetCachedTicket, Login, AffirmLogin, GetKDCs, GetKpasswdServers (three configured), ResolveRealm, Diagnostics, Print, Destroy (at most one, last)} with start offsets 0-5 ms (plus renewal storms: 4 or 8 goroutines requesting tickets for services not asked for before, back to back for two seconds, under renewable TGTs that live about one second, so that the session is renewed in place again and again while it is read; one goroutine may log in 10-30 times instead; and service-ticket renewals: four goroutines ask for two services whose tickets live 1.3 s and are renewable, wait past their end and ask again, twice), 1-3 configured KDCs, TGT lifetimes of 1.3-2.3 s so that background renewals overlap; oracle: no data race in gokrb5, every returned (ticket,key) pair issued together for the requested SPN, Config unchanged, GetKDCs / GetKpasswdServers a permutation of the configured servers, no deadlock (60 s watchdog); non-trivial = >= 2 goroutines measurably overlapped inside gokrb5 calls")
	var cases []Case
	r.Rapid("scenario-gen", r.N(220, 6000), func(t *rapid.T) { cases = append(cases, drawCase(t, false)) })
	// long scenarios (waits of up to a second, renewable 1.3-2.3 s TGTs so that background renewals happen while the
	// goroutines are still working) run in batches of 12 at the same time
	var long []Case
	r.Rapid("long-scenario-gen", r.N(48, 1200), func(t *rapid.T) { long = append(long, drawCase(t, true)) })
	for i := 0; i+12 <= len(long); i += 12 {
		b := long[i]
		for _, o := range long[i+1 : i+12] {
			b.Also = append(b.Also, o.Scenario)
		}
		cases = append(cases, b)
	}
	// renewal storms: the (TGT, session key) pair is renewed in place again and again while other goroutines read it
	storm := map[int]bool{}
	nStorm := r.N(6, 150)
	if v, err := strconv.Atoi(os.Getenv("C11_STORMS")); err == nil {
		nStorm = v // development aid
	}
	r.Rapid("storm-gen", nStorm, func(t *rapid.T) { storm[len(cases)] = true; cases = append(cases, drawStorm(t)) })
	// service-ticket renewals: the cached service tickets live 1.3 s and are renewable; every goroutine asks for the same few
	// services, waits past their end and asks again, so that the renewal of a cached entry (which replaces ticket and key)
	// runs while others read it. The pair handed out by the call that renews must be one the KDC issued together.
	for k := 0; k < r.N(2, 12); k++ {
		s := c10.Spec{Seed: r.Seed()*9176 + uint64(k), Cred: []string{"password", "keytab"}[k%2], ETypes: []int32{[]int32{ref.AES256SHA1, ref.RC4, ref.AES128SHA2, ref.AES128SHA1}[k%4]},
			Preauth: []string{"none", "required"}[(k/2)%2], NoAddr: true, KDCs: 1, Via: "referral", RenewLife: "10m", KDCGrace: true}
		for i := 0; i < 40; i++ {
			s.SvcLives = append(s.SvcLives, c10.LifeSpec{StartMs: 0, EndMs: 1300, RenewMs: 60000})
		}
		c := Case{Scenario: Scenario{Spec: s}}
		for g := 0; g < 4; g++ {
			c.Progs = append(c.Progs, []Op{{K: "ticket", SPN: g % 2}, {K: "ticket", SPN: (g + 1) % 2}, {K: "wait", SPN: 1500 + 40*g}, {K: "ticket", SPN: g % 2}, {K: "cached", SPN: g % 2}, {K: "ticket", SPN: (g + 1) % 2},
				{K: "wait", SPN: 1450}, {K: "ticket", SPN: g % 2}, {K: "cached", SPN: (g + 1) % 2}})
			c.StartUs = append(c.StartUs, 50*g)
		}
		storm[len(cases)] = true
		cases = append(cases, c)
	}
	// scenarios run one at a time so that a race report can be attributed to its scenario
	for i, c := range cases {
		ng := len(c.Progs)
		v := evalWithRaces(c)
		overlapSeen.Lock()
		ov := overlapSeen.n
		overlapSeen.Unlock()
		nt := ""
		if ov > 0 {
			nt = fmt.Sprintf("%d|%+v", i, c)
		}
		kind := "short"
		if storm[i] {
			kind = "renewal-storm"
		}
		if len(c.Also) > 0 {
			kind = "long-batch-of-12"
			for range c.Also {
				r.Count(nt+"+", "kind:long")
			}
		}
		if c.Spec.DupKDC {
			r.Label("config:duplicate-kdc-entry")
		}
		r.Count(nt, fmt.Sprintf("goroutines:%d", ng), fmt.Sprintf("kdcs:%d", c.Spec.KDCs), "cred:"+c.Spec.Cred, "kind:"+kind)
		if len(c.Also) == 0 {
			r.Sample(fmt.Sprintf("goroutines:%d", ng), c)
		}
		overlapSeen.Lock()
		overlapSeen.n = 0
		rn := overlapSeen.renewals
		overlapSeen.renewals = 0
		overlapSeen.Unlock()
		for k := 0; k < rn; k++ {
			r.Label("background-or-on-demand-ticket-renewals")
		}
		r.Violation("scenario", c, v)
		if !v.OK && strings.HasPrefix(v.Sig, "deadlock") {
			// the blocked goroutines stay behind and every further scenario that deadlocks costs another minute of
			// watchdog: one report is enough
			r.Label("stopped-after-deadlock")
			break
		}
	}
}
