// Package refcheck runs the self-tests of the reference implementations before a check judges
// anything. A failure here is harness trouble (exit 2), never a verdict on gokrb5.
package refcheck

import (
	"github.com/jcmturner/gokrb5/v8/test/testdata"

	"verif/harness/ref/der"
	ref "verif/harness/ref/krbcrypto"
)

// Vectors are the MIT krb5 reference encodings shipped in gokrb5's test data.
func Vectors() map[string]string {
	return map[string]string{
		"authenticator": testdata.MarshaledKRB5authenticator, "ticket": testdata.MarshaledKRB5ticket,
		"keyblock": testdata.MarshaledKRB5keyblock, "enc_tkt_part": testdata.MarshaledKRB5enc_tkt_part,
		"as_rep": testdata.MarshaledKRB5as_rep, "tgs_rep": testdata.MarshaledKRB5tgs_rep, "ap_req": testdata.MarshaledKRB5ap_req,
		"ap_rep": testdata.MarshaledKRB5ap_rep, "ap_rep_enc_part": testdata.MarshaledKRB5ap_rep_enc_part,
		"as_req": testdata.MarshaledKRB5as_req, "tgs_req": testdata.MarshaledKRB5tgs_req, "kdc_req_body": testdata.MarshaledKRB5kdc_req_body,
		"safe": testdata.MarshaledKRB5safe, "priv": testdata.MarshaledKRB5priv, "enc_priv_part": testdata.MarshaledKRB5enc_priv_part,
		"cred": testdata.MarshaledKRB5cred, "enc_cred_part": testdata.MarshaledKRB5enc_cred_part, "error": testdata.MarshaledKRB5error,
		"authorization_data": testdata.MarshaledKRB5authorization_data, "padata_sequence": testdata.MarshaledKRB5padata_sequence,
		"etype_info": testdata.MarshaledKRB5etype_info, "etype_info2": testdata.MarshaledKRB5etype_info2,
		"pa_enc_ts": testdata.MarshaledKRB5pa_enc_ts, "enc_data": testdata.MarshaledKRB5enc_data,
	}
}

// Crypto self-tests ref/krbcrypto.
func Crypto() error { return ref.SelfTest() }

// DER self-tests ref/der.
func DER() error { return der.SelfTestVectors(Vectors()) }

// All runs both.
func All() error {
	if err := Crypto(); err != nil {
		return err
	}
	return DER()
}
