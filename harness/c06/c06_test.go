// C06 — decryption returns plaintext only for authentic ciphertexts.
package c06

import (
	"bytes"
	"encoding/hex"
	"fmt"
	"strings"
	"testing"

	"github.com/jcmturner/gokrb5/v8/crypto"
	"github.com/jcmturner/gokrb5/v8/crypto/rfc4757"
	"github.com/jcmturner/gokrb5/v8/types"
	"pgregory.net/rapid"

	"verif/harness/evid"
	"verif/harness/kgen"
	ref "verif/harness/ref/krbcrypto"
)

// Case: a genuine ciphertext (made by the reference from Key/Usage/Plain/Conf) and one tamper.
type Case struct {
	EType  int32  `json:"etype"`
	Key    string `json:"key"`
	Usage  uint32 `json:"usage"`
	Plain  string `json:"plain"`
	Conf   string `json:"confounder"`
	Tamper string `json:"tamper"` // none bitflip truncate append insert delete swap usage key key-inplace etype
	A      int    `json:"a"`      // bit index | new length | first block | other usage | other etype
	B      int    `json:"b"`      // second block | block size
	Extra  string `json:"extra"`  // appended bytes | other key
}

func genuine(c Case) (key, ct []byte, err error) {
	key, _ = hex.DecodeString(c.Key)
	plain, _ := hex.DecodeString(c.Plain)
	conf, _ := hex.DecodeString(c.Conf)
	ct, err = ref.Encrypt(c.EType, key, c.Usage, plain, conf)
	return
}

// Eval judges one Case. trivial reports that the tamper left the presentation unchanged
// (e.g. swapping two equal blocks, an rc4 usage alias) so nothing is asserted.
func Eval(c Case) evid.Verdict { v, _ := eval(c); return v }

func eval(c Case) (v evid.Verdict, trivial bool) {
	defer func() {
		if p := recover(); p != nil {
			v = evid.SafeEval(func() evid.Verdict { panic(p) })
			// classify by tamper so that the short-ciphertext panic has one signature per family
			v.Sig = fmt.Sprintf("panic:%s:etype%d", c.Tamper, c.EType)
		}
	}()
	key, ct, err := genuine(c)
	if err != nil {
		return evid.Fail("harness", "reference cannot encrypt: %v", err), false
	}
	et, usage := c.EType, c.Usage
	pres := append([]byte{}, ct...)
	switch c.Tamper {
	case "none":
	case "bitflip":
		pres[c.A/8] ^= 1 << uint(c.A%8)
	case "truncate":
		pres = pres[:c.A]
	case "append":
		x, _ := hex.DecodeString(c.Extra)
		pres = append(pres, x...)
	case "insert": // octets inserted at an offset (anywhere, e.g. directly in front of the integrity tag)
		x, _ := hex.DecodeString(c.Extra)
		if c.A > len(pres) {
			return evid.Pass(), true
		}
		pres = append(append(append([]byte{}, pres[:c.A]...), x...), pres[c.A:]...)
	case "delete": // B octets removed at an offset
		if c.A+c.B > len(pres) || c.B == 0 {
			return evid.Pass(), true
		}
		pres = append(append([]byte{}, pres[:c.A]...), pres[c.A+c.B:]...)
	case "swap":
		bs := c.B
		i, j := c.A*bs, (c.A+1)*bs
		if j+bs > len(pres) {
			return evid.Pass(), true
		}
		tmp := append([]byte{}, pres[i:i+bs]...)
		copy(pres[i:i+bs], pres[j:j+bs])
		copy(pres[j:j+bs], tmp)
	case "usage":
		usage = uint32(c.A)
		if usage == c.Usage || (et == ref.RC4 && ref.RC4Usage(usage) == ref.RC4Usage(c.Usage)) {
			return evid.Pass(), true // RFC 4757 aliases decrypt by design
		}
	case "key":
		key, _ = hex.DecodeString(c.Extra)
	case "key-inplace":
		// the caller decrypts the genuine message, then re-uses the SAME key buffer for another key (overwritten in
		// place) and is offered the old ciphertext again: it must be refused like under any other unrelated key
		buf := append([]byte{}, key...)
		if got, err := crypto.DecryptMessage(ct, types.EncryptionKey{KeyType: et, KeyValue: buf}, usage); err != nil {
			return evid.Fail(fmt.Sprintf("control:etype%d", c.EType), "genuine ciphertext not decrypted: %v (%x)", err, got), false
		}
		other, _ := hex.DecodeString(c.Extra)
		copy(buf, other)
		key = buf
	case "etype":
		et = int32(c.A)
	default:
		return evid.Fail("harness", "bad tamper %q", c.Tamper), false
	}
	if c.Tamper != "none" && c.Tamper != "usage" && c.Tamper != "key" && c.Tamper != "key-inplace" && c.Tamper != "etype" && bytes.Equal(pres, ct) {
		return evid.Pass(), true
	}
	ek := types.EncryptionKey{KeyType: et, KeyValue: key}
	got, err := crypto.DecryptMessage(pres, ek, usage)
	e, eerr := crypto.GetEtype(et)
	var got2 []byte
	var err2 error
	if eerr == nil {
		got2, err2 = e.DecryptMessage(key, pres, usage)
	}
	if c.Tamper == "none" {
		plain, _ := hex.DecodeString(c.Plain)
		if err != nil || err2 != nil || !bytes.HasPrefix(got, plain) || !bytes.HasPrefix(got2, plain) {
			return evid.Fail(fmt.Sprintf("control:etype%d", c.EType), "genuine ciphertext not decrypted: %v / %v", err, err2), false
		}
		return evid.Pass(), false
	}
	sig := fmt.Sprintf("accepts:%s:etype%d", c.Tamper, c.EType)
	if err == nil {
		return evid.Fail(sig, "crypto.DecryptMessage accepted a %s presentation and returned %x", c.Tamper, got), false
	}
	if eerr == nil && err2 == nil {
		return evid.Fail(sig, "EType.DecryptMessage accepted a %s presentation and returned %x", c.Tamper, got2), false
	}
	if len(got) != 0 || len(got2) != 0 {
		return evid.Fail("plaintext-with-error:"+fmt.Sprint(c.EType), "an error was returned together with plaintext bytes %x / %x", got, got2), false
	}
	// the other exported routes to the same decryption: the typed wrapper the messages package uses (whatever etype the
	// EncryptedData declares - the key decides), and for rc4-hmac the rfc4757 package called directly, also with its export flag
	for _, declared := range []int32{et, 0, 1, 3, 24, -1} {
		if g, err := crypto.DecryptEncPart(types.EncryptedData{EType: declared, KVNO: 1, Cipher: append([]byte{}, pres...)}, ek, usage); err == nil {
			return evid.Fail(sig+":DecryptEncPart", "crypto.DecryptEncPart (EncryptedData declaring etype %d) accepted a %s presentation and returned %x", declared, c.Tamper, g), false
		} else if len(g) != 0 {
			return evid.Fail("plaintext-with-error:"+fmt.Sprint(c.EType), "crypto.DecryptEncPart returned an error together with plaintext bytes %x", g), false
		}
	}
	if et == ref.RC4 && eerr == nil {
		for _, export := range []bool{false, true} {
			if g, err := rfc4757.DecryptMessage(key, append([]byte{}, pres...), usage, export, e); err == nil {
				return evid.Fail(sig+":rfc4757", "rfc4757.DecryptMessage(export=%v) accepted a %s presentation and returned %x", export, c.Tamper, g), false
			}
		}
		// what the package encrypts with the export flag set is bound to key and usage like everything else
		if c.Tamper == "usage" || c.Tamper == "key" || c.Tamper == "bitflip" || c.Tamper == "truncate" {
			gk, _, gerr := genuine(c)
			plain, _ := hex.DecodeString(c.Plain)
			if gerr == nil {
				if xct, err := rfc4757.EncryptMessage(gk, plain, c.Usage, true, e); err == nil {
					xp := append([]byte{}, xct...)
					switch c.Tamper {
					case "bitflip":
						xp[(c.A/8)%len(xp)] ^= 1 << uint(c.A%8)
					case "truncate":
						xp = xp[:c.A%len(xp)]
					}
					if g, err := rfc4757.DecryptMessage(gk, append([]byte{}, xct...), c.Usage, true, e); err != nil || !bytes.Equal(g, plain) {
						return evid.Fail("control:rfc4757-export", "rfc4757.DecryptMessage(export=true) does not decrypt what rfc4757.EncryptMessage(export=true) produced: %x %v", g, err), false
					}
					if g, err := rfc4757.DecryptMessage(key, xp, usage, true, e); err == nil {
						return evid.Fail(sig+":rfc4757-export", "a message encrypted by rfc4757.EncryptMessage(export=true) was decrypted by rfc4757.DecryptMessage(export=true) as a %s presentation: %x", c.Tamper, g), false
					}
				}
			}
		}
	}
	return evid.Pass(), false
}

func TestProp(t *testing.T) {
	r := evid.Start(t, "C06", "exploration")
	evid.Reg(r, "tamper", Eval)
	evid.Reg(r, "enum", Eval)
	if r.Replay() {
		return
	}
	defer r.Finish()
	r.Regress()
	if err := ref.SelfTest(); err != nil {
		r.Inconclusive("reference crypto self-test failed: %v", err)
		return
	}
	r.Assume("genuine ciphertexts are produced by ref/krbcrypto (validated against RFC vectors at start-up); C05 establishes that the library's own ciphertexts are the same function")
	judge := func(check string, c Case, rt *rapid.T) {
		v, triv := eval(c)
		n := len(c.Plain) / 2
		if triv {
			r.Count("", "trivial-skipped", "tamper:"+c.Tamper)
			return
		}
		nt := ""
		if c.Tamper != "none" {
			nt = fmt.Sprintf("%d|%d|%s|%d|%d|%s", c.EType, n, c.Tamper, c.A, c.B, c.Extra)
		}
		r.Count(nt, fmt.Sprintf("etype%d", c.EType), "tamper:"+c.Tamper)
		r.Sample(fmt.Sprintf("%s/etype%d", c.Tamper, c.EType), c)
		if rt != nil {
			if r.Judge(check, c, v) {
				rt.Fatalf("violation")
			}
		} else {
			r.Violation(check, c, v)
		}
	}
	r.Rule("rapid: etype x plaintext length 0..64 x usage x random key; one tamper drawn from {bit flip at any position, truncation to any length, 1..17 appended bytes, swap of two adjacent 8/16-byte blocks, other usage from the usage set, unrelated key, same key bytes under another etype of equal key length}; non-trivial = a presentation that differs from the genuine one (rc4 usage aliases 3,9->8 and 23->13 are skipped and counted)")
	r.Rapid("tamper", r.N(6000, 150000), func(t *rapid.T) {
		et := kgen.EType(t)
		c := Case{EType: et, Usage: kgen.Usage(t)}
		c.Key = hex.EncodeToString(kgen.Key(t, et, "key"))
		n := kgen.BoundaryLen(t, 64)
		if rapid.IntRange(0, 9).Draw(t, "longer") == 0 {
			// beyond the quantifier's 0..64 (the statement says every input): ticket-sized and multi-KiB messages
			n = rapid.SampledFrom([]int{130, 200, 257, 600, 1500, 4099}).Draw(t, "longlen")
		}
		c.Plain = hex.EncodeToString(kgen.Bytes(t, "plain", n))
		c.Conf = hex.EncodeToString(kgen.Bytes(t, "conf", ref.ConfounderLen(et)))
		clen := ref.EncryptedLen(et, n)
		c.Tamper = rapid.SampledFrom([]string{"bitflip", "truncate", "append", "insert", "delete", "swap", "usage", "key", "key-inplace", "etype", "none"}).Draw(t, "tamper")
		switch c.Tamper {
		case "insert":
			c.A = rapid.IntRange(0, clen).Draw(t, "at")
			if rapid.Bool().Draw(t, "before-tag") {
				c.A = clen - ref.MACLen(et) // directly in front of the integrity tag (rc4: behind it)
				if et == ref.RC4 {
					c.A = ref.MACLen(et)
				}
			}
			c.Extra = hex.EncodeToString(rapid.SliceOfN(rapid.Byte(), 1, 17).Draw(t, "extra"))
		case "delete":
			c.A = rapid.IntRange(0, clen-1).Draw(t, "at")
			c.B = rapid.IntRange(1, 17).Draw(t, "count")
		case "bitflip":
			c.A = rapid.IntRange(0, clen*8-1).Draw(t, "bit")
		case "truncate":
			c.A = rapid.IntRange(0, clen-1).Draw(t, "newlen")
		case "append":
			c.Extra = hex.EncodeToString(rapid.SliceOfN(rapid.Byte(), 1, 17).Draw(t, "extra"))
		case "swap":
			c.B = rapid.SampledFrom([]int{8, 16}).Draw(t, "bs")
			c.A = rapid.IntRange(0, clen/c.B).Draw(t, "blk")
		case "usage":
			c.A = int(kgen.Usage(t))
		case "key", "key-inplace":
			c.Extra = hex.EncodeToString(kgen.Key(t, et, "otherkey"))
			if c.Extra == c.Key {
				t.Skip("same key")
			}
		case "etype":
			var alts []int32
			for _, o := range ref.ETypes {
				if o != et && ref.KeyLen(o) == ref.KeyLen(et) {
					alts = append(alts, o)
				}
			}
			if len(alts) == 0 {
				c.Tamper, c.A = "bitflip", rapid.IntRange(0, clen*8-1).Draw(t, "bit")
			} else {
				c.A = int(rapid.SampledFrom(alts).Draw(t, "otheretype"))
			}
		}
		judge("tamper", c, t)
	})

	// Enumeration: for each etype and each selected plaintext length, EVERY single-bit flip, EVERY
	// truncation length, appended 1..17 bytes, every adjacent block swap, every other usage.
	lens := []int{}
	if r.Thorough() {
		for n := 0; n <= 130; n++ {
			lens = append(lens, n)
		}
		lens = append(lens, 255, 256, 257, 1023, 1024, 1025, 4096)
	} else {
		// 8 lengths per run, seed-dependent, always including the boundary lengths 0, 1 and one block multiple
		pick := map[int]bool{0: true, 1: true}
		b := kgen.DetBytes(r.Seed(), "c06/lens", 32)
		for i := 0; len(pick) < 8; i++ {
			pick[int(b[i%32]+byte(i/32))%65] = true
		}
		for n := 0; n <= 64; n++ {
			if pick[n] {
				lens = append(lens, n)
			}
		}
	}
	r.Extra("enumerated_plaintext_lengths", lens)
	r.Rule(fmt.Sprintf("enum: for each etype x plaintext length in %v: every single-bit flip of the whole ciphertext, every truncation, 1..17 appended bytes, 1/7/8/16 octets inserted or deleted at every offset, every adjacent block swap, every other usage, an unrelated key, every equal-key-length etype", lens))
	type job struct {
		et int32
		n  int
	}
	jobs := []job{}
	for _, et := range ref.ETypes {
		for _, n := range lens {
			jobs = append(jobs, job{et, n})
		}
	}
	evid.Parallel(len(jobs), 16, func(i int) {
		j := jobs[i]
		lbl := fmt.Sprintf("c06/%d/%d", j.et, j.n)
		base := Case{EType: j.et, Usage: kgen.Usages[(i+int(r.Seed()))%len(kgen.Usages)],
			Key:   hex.EncodeToString(ref.RandomKey(j.et, kgen.DetBytes(r.Seed(), lbl+"/k", 32))),
			Plain: hex.EncodeToString(kgen.DetBytes(r.Seed(), lbl+"/p", j.n)),
			Conf:  hex.EncodeToString(kgen.DetBytes(r.Seed(), lbl+"/c", ref.ConfounderLen(j.et)))}
		clen := ref.EncryptedLen(j.et, j.n)
		c := base
		c.Tamper = "none"
		judge("enum", c, nil)
		for b := 0; b < clen*8; b++ {
			c = base
			c.Tamper, c.A = "bitflip", b
			judge("enum", c, nil)
		}
		for at := 0; at <= clen; at++ {
			for _, n := range []int{1, 7, 8, 16} {
				c = base
				c.Tamper, c.A, c.Extra = "insert", at, hex.EncodeToString(kgen.DetBytes(r.Seed(), fmt.Sprintf("%s/ins/%d/%d", lbl, at, n), n))
				judge("enum", c, nil)
				c = base
				c.Tamper, c.A, c.B = "delete", at, n
				judge("enum", c, nil)
			}
		}
		for l := 0; l < clen; l++ {
			c = base
			c.Tamper, c.A = "truncate", l
			judge("enum", c, nil)
		}
		for k := 1; k <= 17; k++ {
			c = base
			c.Tamper, c.Extra = "append", hex.EncodeToString(kgen.DetBytes(r.Seed(), lbl+"/x", k))
			judge("enum", c, nil)
			c.Extra = hex.EncodeToString(make([]byte, k))
			judge("enum", c, nil)
		}
		for _, bs := range []int{8, 16} {
			for b := 0; (b+2)*bs <= clen; b++ {
				c = base
				c.Tamper, c.A, c.B = "swap", b, bs
				judge("enum", c, nil)
			}
		}
		for _, u := range kgen.Usages {
			c = base
			c.Tamper, c.A = "usage", int(u)
			judge("enum", c, nil)
		}
		c = base
		c.Tamper, c.Extra = "key", hex.EncodeToString(ref.RandomKey(j.et, kgen.DetBytes(r.Seed(), lbl+"/k2", 32)))
		judge("enum", c, nil)
		c.Tamper = "key-inplace"
		judge("enum", c, nil)
		// the right key with zero octets behind it: another octet string, hence another key (HMAC pads short keys with
		// zeros, so an implementation that does not look at the key's length cannot tell them apart)
		for _, z := range []int{1, 2, 16, 48} {
			c = base
			c.Tamper, c.Extra = "key", base.Key+strings.Repeat("00", z)
			judge("enum", c, nil)
		}
		c.Extra = hex.EncodeToString(make([]byte, ref.KeyLen(j.et)))
		if j.et != ref.DES3 {
			judge("enum", c, nil)
		}
		for _, o := range ref.ETypes {
			if o != j.et && ref.KeyLen(o) == ref.KeyLen(j.et) {
				c = base
				c.Tamper, c.A = "etype", int(o)
				judge("enum", c, nil)
			}
		}
	})
	r.Exhaustive("single-bit flips and truncations of the enumerated (etype, length) ciphertexts")
}
