// C03 — the SPNEGO HTTP wrapper serves the inner handler only to authenticated requests.
package c03

import (
	"encoding/base64"
	"errors"
	"fmt"
	"io"
	"log"
	"net/http"
	"net/http/httptest"
	"strings"
	"sync"
	"testing"
	"time"

	"github.com/jcmturner/goidentity/v6"
	"github.com/jcmturner/gokrb5/v8/credentials"
	"github.com/jcmturner/gokrb5/v8/gssapi"
	"github.com/jcmturner/gokrb5/v8/keytab"
	"github.com/jcmturner/gokrb5/v8/service"
	"github.com/jcmturner/gokrb5/v8/spnego"
	"github.com/jcmturner/gokrb5/v8/types"
	"pgregory.net/rapid"

	"verif/harness/c01"
	"verif/harness/evid"
	"verif/harness/kgen"
	"verif/harness/mint"
	"verif/harness/ref/der"
	ref "verif/harness/ref/krbcrypto"
	"verif/harness/refcheck"
)

// Req is one HTTP request of a history.
type Req struct {
	Header  string   `json:"header"`  // none | basic | neg-empty | neg-notb64 | neg-random | token | token-again (the Authorization value of the last request served on its token, octet for octet; none if there was no such request)
	Framing string   `json:"framing"` // see framings
	Inner   string   `json:"inner"`   // apreq | aprep | krberror | garbage | tokid-unknown
	AP      c01.Case `json:"ap"`
	Mut     string   `json:"mut"`    // "" | trunc:<n> | sub:<pos>:<val>
	Cookie  string   `json:"cookie"` // "" | last | forged
	Random  string   `json:"random,omitempty"`
}

// Case is a request history against one wrapped handler.
type Case struct {
	SessionMgr string `json:"session_mgr"`           // none | memory | failnew | failget | failget-stale (Get returns the record together with an error)
	OneHandler bool   `json:"one_handler,omitempty"` // one handler (the first request's settings) serves the whole history, as a real service does
	Reqs       []Req  `json:"reqs"`
}

var framings = []string{"init-krb5", "init-mskrb5-first", "init-krb5-ntlm", "init-ntlm-krb5", "init-ntlm", "init-empty-mechs",
	"init-no-mechtoken", "resp-krb5", "resp-mskrb5", "resp-no-mech", "resp-ntlm", "raw-krb5", "raw-wrong-oid", "init-bare"}

// standard framings for which a valid AP-REQ must be served (completeness direction)
var standard = map[string]bool{"init-krb5": true, "init-mskrb5-first": true, "init-krb5-ntlm": true, "resp-krb5": true, "resp-mskrb5": true, "raw-krb5": true}

func oids(names ...string) []any {
	m := map[string][]int{"krb5": der.OIDKRB5, "mskrb5": der.OIDMSKRB5, "ntlm": der.OIDNTLMSSP}
	out := []any{}
	for _, n := range names {
		out = append(out, m[n])
	}
	return out
}

// buildToken renders the Authorization token bytes of a request; it returns the minted AP-REQ (nil
// unless Inner == apreq).
func buildToken(q Req) ([]byte, *c01.Minted, error) {
	var inner []byte
	var m *c01.Minted
	switch q.Inner {
	case "apreq":
		var err error
		m, err = q.AP.Mint(c01.SamplePAC())
		if err != nil {
			return nil, nil, err
		}
		inner = append([]byte{1, 0}, m.APReq...)
	case "aprep":
		ap := der.APRep.MustEncode(der.M{"pvno": int64(5), "msg-type": int64(15),
			"enc-part": der.M{"etype": int64(18), "cipher": kgen.DetBytes(q.AP.Seed, "c03/aprep", 60)}})
		inner = append([]byte{2, 0}, ap...)
	case "krberror":
		ke := der.KRBError.MustEncode(der.M{"pvno": int64(5), "msg-type": int64(30), "stime": time.Unix(1700000000, 0).UTC(), "susec": int64(1),
			"error-code": int64(41), "realm": "EXAMPLE.COM", "sname": der.Name(2, "HTTP", "svc.example.com")})
		inner = append([]byte{3, 0}, ke...)
	case "tokid-unknown":
		inner = append([]byte{9, 9}, kgen.DetBytes(q.AP.Seed, "c03/unk", 40)...)
	default:
		inner = kgen.DetBytes(q.AP.Seed, "c03/garbage", 50)
	}
	mech := der.GSSWrap(der.OIDKRB5, inner)
	if q.Framing == "raw-wrong-oid" {
		mech = der.GSSWrap(der.OIDNTLMSSP, inner)
	}
	initTok := func(mechs []any, withToken bool) []byte {
		v := der.M{"mechTypes": mechs}
		if withToken {
			v["mechToken"] = mech
		}
		return der.GSSWrap(der.OIDSPNEGO, der.Ctx(0, der.NegTokenInit.MustEncode(v)))
	}
	respTok := func(mech0 []int) []byte {
		v := der.M{"negState": int64(1), "responseToken": mech}
		if mech0 != nil {
			v["supportedMech"] = mech0
		}
		return der.Ctx(1, der.NegTokenResp.MustEncode(v))
	}
	var tok []byte
	switch q.Framing {
	case "init-krb5":
		tok = initTok(oids("krb5"), true)
	case "init-mskrb5-first":
		tok = initTok(oids("mskrb5", "krb5"), true)
	case "init-krb5-ntlm":
		tok = initTok(oids("krb5", "ntlm"), true)
	case "init-ntlm-krb5":
		tok = initTok(oids("ntlm", "krb5"), true)
	case "init-ntlm":
		tok = initTok(oids("ntlm"), true)
	case "init-empty-mechs":
		tok = initTok([]any{}, true)
	case "init-no-mechtoken":
		tok = initTok(oids("krb5"), false)
	case "init-bare": // NegTokenInit without the GSS framing
		tok = der.Ctx(0, der.NegTokenInit.MustEncode(der.M{"mechTypes": oids("krb5"), "mechToken": mech}))
	case "resp-krb5":
		tok = respTok(der.OIDKRB5)
	case "resp-mskrb5":
		tok = respTok(der.OIDMSKRB5)
	case "resp-no-mech":
		tok = respTok(nil)
	case "resp-ntlm":
		tok = respTok(der.OIDNTLMSSP)
	case "raw-krb5", "raw-wrong-oid":
		tok = mech
	default:
		return nil, nil, fmt.Errorf("bad framing %q", q.Framing)
	}
	if q.Mut != "" {
		var a, b int
		if n, _ := fmt.Sscanf(q.Mut, "trunc:%d", &a); n == 1 {
			tok = tok[:a%len(tok)]
		} else if n, _ := fmt.Sscanf(q.Mut, "sub:%d:%d", &a, &b); n == 2 {
			tok = append([]byte{}, tok...)
			tok[a%len(tok)] = byte(b)
		}
	}
	return tok, m, nil
}

// in-memory session manager (the application's own store in the property's terms)
type memSM struct {
	mu       sync.Mutex
	store    map[string][]byte
	n        int
	failNew  bool
	failGet  bool
	stale    bool // Get finds the record but reports an error with it (expired / revoked / backend trouble)
	lastCook string
}

func (s *memSM) New(w http.ResponseWriter, r *http.Request, k string, v []byte) error {
	if s.failNew {
		return errors.New("session store unavailable")
	}
	s.mu.Lock()
	defer s.mu.Unlock()
	s.n++
	id := fmt.Sprintf("sess-%d-%x", s.n, kgen.DetBytes(uint64(s.n), "c03/sess", 8))
	s.store[id+"|"+k] = v
	s.lastCook = id
	http.SetCookie(w, &http.Cookie{Name: "sid", Value: id})
	return nil
}

func (s *memSM) Get(r *http.Request, k string) ([]byte, error) {
	if s.failGet && !s.stale {
		return nil, errors.New("session store unavailable")
	}
	c, err := r.Cookie("sid")
	if err != nil {
		return nil, err
	}
	if c.Value == "unauthenticated-record" {
		// the application's store holds a credentials record that was NOT produced by an accepted request
		// (authenticated=false): it is not "a session established by such a request"
		return credentials.New("eve", "EVIL.ORG").Marshal()
	}
	s.mu.Lock()
	defer s.mu.Unlock()
	v, ok := s.store[c.Value+"|"+k]
	if !ok {
		return nil, errors.New("no such session")
	}
	if s.stale {
		return v, errors.New("session has ended")
	}
	return v, nil
}

type served struct {
	ran    bool
	user   string
	domain string
	authed bool
}

// Eval runs the history.
func Eval(c Case) evid.Verdict {
	return evid.SafeEval(func() evid.Verdict {
		c01.SamplePAC()
		if len(c.Reqs) == 0 {
			return evid.Pass()
		}
		// one keytab world per history: all requests share the first request's seed/etype/service
		w0 := c.Reqs[0].AP
		wide := false // the keytab is shared: if any request needs the kvno-65539 key, the keytab holds it for all of them
		for _, q := range c.Reqs {
			wide = wide || q.AP.KtWide
		}
		w0.KtWide = wide
		kt := keytab.New()
		{
			m, err := w0.Mint(c01.SamplePAC())
			if err != nil {
				return evid.Fail("harness", "mint: %v", err)
			}
			if err := kt.Unmarshal(m.Keytab); err != nil {
				return evid.Fail("harness", "keytab: %v", err)
			}
		}
		var sm *memSM
		if c.SessionMgr != "none" {
			sm = &memSM{store: map[string][]byte{}, failNew: c.SessionMgr == "failnew", failGet: c.SessionMgr == "failget" || c.SessionMgr == "failget-stale",
				stale: c.SessionMgr == "failget-stale"}
		}
		var got served
		inner := http.HandlerFunc(func(w http.ResponseWriter, r *http.Request) {
			got.ran = true
			if id := goidentity.FromHTTPRequestContext(r); id != nil {
				got.user, got.domain, got.authed = id.UserName(), id.Domain(), id.Authenticated()
			}
			w.WriteHeader(200)
		})
		type sessInfo struct{ user, domain string }
		sessions := map[string]sessInfo{}
		var lastServed struct {
			auth string
			tok  []byte
		}
		var shared http.Handler
		var reuse spnego.SPNEGOToken // one token variable decoded into again and again (API level)
		for qi, q := range c.Reqs {
			q.AP.Seed, q.AP.EType, q.AP.Svc, q.AP.KtWide = w0.Seed, w0.EType, w0.Svc, wide
			if c.OneHandler {
				q.AP.SkewSec, q.AP.RequireAddr, q.AP.KtPrinc, q.AP.DecodePAC = w0.SkewSec, w0.RequireAddr, w0.KtPrinc, w0.DecodePAC
			}
			opts := []func(*service.Settings){service.Logger(log.New(io.Discard, "", 0)), service.DecodePAC(q.AP.DecodePAC)}
			if q.AP.SkewSec != 0 {
				opts = append(opts, service.MaxClockSkew(time.Duration(q.AP.SkewSec)*time.Second))
			}
			if q.AP.RequireAddr {
				opts = append(opts, service.RequireHostAddr(true))
			}
			switch q.AP.KtPrinc {
			case "alt":
				opts = append(opts, service.KeytabPrincipal(c01.AltPrincipal))
			case "missing":
				opts = append(opts, service.KeytabPrincipal(c01.MissingPrincipal))
			}
			if sm != nil {
				opts = append(opts, service.SessionManager(sm))
			}
			h := spnego.SPNEGOKRB5Authenticate(inner, kt, opts...)
			if c.OneHandler {
				if shared == nil {
					shared = h
				}
				h = shared
			}
			req := httptest.NewRequest("GET", "http://svc.example.com/", nil)
			req.RemoteAddr = "pipe" // unparsable: no client address configured
			if q.AP.ClientAddr == "V6" {
				req.RemoteAddr = "[2001:db8::a01:101]:4321"
			} else if q.AP.ClientAddr != "" {
				a := c01.AddrBytes(q.AP.ClientAddr)
				req.RemoteAddr = fmt.Sprintf("%d.%d.%d.%d:4321", a[0], a[1], a[2], a[3])
			}
			var m *c01.Minted
			var tok []byte
			switch q.Header {
			case "none":
			case "basic":
				req.Header.Set("Authorization", "Basic "+base64.StdEncoding.EncodeToString([]byte("user:pass")))
			case "neg-empty":
				req.Header.Set("Authorization", "Negotiate")
			case "neg-empty2":
				req.Header.Set("Authorization", "Negotiate ")
			case "neg-notb64":
				req.Header.Set("Authorization", "Negotiate !!!not*base64!!!")
			case "neg-random":
				req.Header.Set("Authorization", "Negotiate "+base64.StdEncoding.EncodeToString([]byte(q.Random)))
			case "token-again":
				if lastServed.auth != "" {
					req.Header.Set("Authorization", lastServed.auth)
				}
			case "token":
				var err error
				tok, m, err = buildToken(q)
				if err != nil {
					return evid.Fail("harness", "token: %v", err)
				}
				req.Header.Set("Authorization", "Negotiate "+base64.StdEncoding.EncodeToString(tok))
			}
			cookieValid := false
			var cookieSess sessInfo
			switch q.Cookie {
			case "last":
				if sm != nil && sm.lastCook != "" {
					req.AddCookie(&http.Cookie{Name: "sid", Value: sm.lastCook})
					if si, ok := sessions[sm.lastCook]; ok && !sm.failGet {
						cookieValid, cookieSess = true, si
					}
				}
			case "forged":
				req.AddCookie(&http.Cookie{Name: "sid", Value: "sess-1-0000000000000000"})
			case "unauth":
				req.AddCookie(&http.Cookie{Name: "sid", Value: "unauthenticated-record"})
			}
			got = served{}
			rec := httptest.NewRecorder()
			h.ServeHTTP(rec, req)
			ctx := fmt.Sprintf("request %d of %d: header=%s framing=%s inner=%s mut=%q cookie=%s session_mgr=%s defects=%v ktprinc=%q", qi+1, len(c.Reqs), q.Header, q.Framing, q.Inner, q.Mut, q.Cookie, c.SessionMgr, q.AP.Defects, q.AP.KtPrinc)
			exp := q.AP.Expect()
			carriesAcceptable := q.Header == "token" && q.Inner == "apreq" && exp.Accept && !exp.Either
			mayBeAcceptable := q.Header == "token" && q.Inner == "apreq" && (exp.Accept || exp.Either)
			if q.Header == "token" && q.Inner == "apreq" && q.Mut != "" && len(q.AP.Defects) > 0 {
				// a byte substitution could in principle undo a ciphertext-flip defect: for mutated tokens only the
				// metamorphic relation (served => sealed identity) is asserted
				mayBeAcceptable = true
			}
			if got.ran {
				switch {
				case cookieValid:
					if got.user != cookieSess.user || got.domain != cookieSess.domain || !got.authed {
						return evid.Fail("identity:session", "served under a session with identity %s@%s, the session was created for %s@%s; %s", got.user, got.domain, cookieSess.user, cookieSess.domain, ctx)
					}
				case mayBeAcceptable:
					// with a verified PAC the user name is legitimately the PAC's EffectiveName (also sealed by the KDC)
					pacName := q.AP.PAC != "" && q.AP.DecodePAC
					if (got.user != plainName(m.CName) && !pacName) || got.domain != m.CRealm || !got.authed {
						return evid.Fail("identity:token", "inner handler saw identity %q@%q (authenticated=%v); the accepted ticket seals %q@%q; %s", got.user, got.domain, got.authed, m.CName, m.CRealm, ctx)
					}
					if sm != nil && !sm.failNew && sm.lastCook != "" {
						sessions[sm.lastCook] = sessInfo{got.user, m.CRealm}
					}
					lastServed.auth, lastServed.tok = req.Header.Get("Authorization"), tok
				default:
					why := "the request carried no acceptable AP-REQ"
					if q.Header == "token-again" && lastServed.auth != "" {
						why = "its token is, octet for octet, one that was accepted earlier in this history (a replayed authenticator is not one the service accepts)"
					} else if q.Header == "token" && q.Inner == "apreq" {
						why = "its AP-REQ violates RFC 4120 3.2.3 (" + exp.Reason + ")"
					}
					return evid.Fail("served-unauthenticated:"+classify(q), "inner handler ran although %s and no valid session; status %d; %s", why, rec.Code, ctx)
				}
				if mayBeAcceptable && q.Mut == "" && sm != nil && sm.failNew {
					return evid.Fail("served-despite-store-failure", "inner handler ran although the session store failed; %s", ctx)
				}
			} else {
				// refused
				if rec.Code == 200 {
					return evid.Fail("refused-with-200", "inner handler did not run but status is 200; %s", ctx)
				}
				storeFailed := sm != nil && sm.failNew && mayBeAcceptable
				if rec.Code >= 500 && !storeFailed {
					return evid.Fail("5xx-without-store-failure", "status %d although the session store did not fail; %s", rec.Code, ctx)
				}
				if rec.Code < 500 {
					if rec.Code != 401 {
						return evid.Fail("refusal-status", "refused with status %d, want 401; %s", rec.Code, ctx)
					}
					if wa := rec.Header().Get("WWW-Authenticate"); !strings.HasPrefix(wa, "Negotiate") {
						return evid.Fail("refusal-challenge", "401 without a WWW-Authenticate: Negotiate challenge (header %q); %s", wa, ctx)
					}
				}
				if cookieValid {
					return evid.Fail("session-refused", "request with the cookie of an established session was refused with %d; %s", rec.Code, ctx)
				}
				if carriesAcceptable && q.Mut == "" && standard[q.Framing] && !storeFailed {
					return evid.Fail("refused-valid:"+q.Framing, "request with an acceptable AP-REQ in a standard framing was refused with %d (%s); %s", rec.Code, rec.Header().Get("WWW-Authenticate"), ctx)
				}
			}
			// API level: the replayed token octets through AcceptSecContext under this request's settings
			if q.Header == "token-again" && lastServed.tok != nil {
				var st spnego.SPNEGOToken
				if st.Unmarshal(lastServed.tok) == nil {
					o := opts
					if q.AP.ClientAddr != "" {
						o = append(append([]func(*service.Settings){}, opts...), service.ClientAddress(hostAddr(q.AP.ClientAddr)))
					}
					if ok, _, status := spnego.SPNEGOService(kt, o...).AcceptSecContext(&st); ok {
						return evid.Fail("api-ok-replayed-token", "AcceptSecContext reported success (status %v) for a token that had been accepted before; %s", status, ctx)
					}
				}
			}
			// API level: a freshly minted copy of the same token through AcceptSecContext
			if q.Header == "token" {
				if v := apiLevel(q, kt, opts, exp, nil); !v.OK {
					v.Msg += "; " + ctx
					return v
				}
				// the same, decoding into a token variable that has been used for the earlier requests of the history
				if v := apiLevel(q, kt, opts, exp, &reuse); !v.OK {
					v.Sig = "reused-token-variable:" + v.Sig
					v.Msg += " (the SPNEGOToken variable had been used for earlier tokens); " + ctx
					return v
				}
			}
		}
		return evid.Pass()
	})
}

// plainName renders a minted name (components separated by "/", literal slashes escaped as %2F) the way
// PrincipalNameString does.
func plainName(s string) string { return strings.Join(mint.Name(s), "/") }

func classify(q Req) string {
	if q.Header == "token-again" {
		return "replayed-token"
	}
	if q.Header != "token" {
		return q.Header
	}
	if q.Inner != "apreq" {
		return q.Inner
	}
	if q.Mut != "" {
		return "mutated"
	}
	return "defective-apreq"
}

// apiLevel presents a freshly minted copy of the token to the token-verification API.
func apiLevel(q Req, kt *keytab.Keytab, opts []func(*service.Settings), exp c01.Expectation, into *spnego.SPNEGOToken) evid.Verdict {
	tok, m, err := buildToken(q)
	if err != nil {
		return evid.Fail("harness", "token: %v", err)
	}
	if q.AP.ClientAddr != "" {
		opts = append(append([]func(*service.Settings){}, opts...), service.ClientAddress(hostAddr(q.AP.ClientAddr)))
	}
	var fresh spnego.SPNEGOToken
	st := &fresh
	if into != nil {
		st = into
	}
	if st.Unmarshal(tok) == nil {
		s := spnego.SPNEGOService(kt, opts...)
		ok, ctx, status := s.AcceptSecContext(st)
		if ok {
			if !(q.Inner == "apreq" && (exp.Accept || exp.Either)) {
				return evid.Fail("api-ok-without-apreq:"+classify(q), "AcceptSecContext reported success (status %v) for a token that contains no accepted AP-REQ", status)
			}
			if ctx == nil {
				return evid.Fail("api-ok-nil-context", "AcceptSecContext reported success with a nil context")
			}
			cr, _ := ctx.Value("github.com/jcmturner/gokrb5/v8/ctxCredentials").(*credentials.Credentials)
			if cr == nil || fmt.Sprintf("%q", cr.CName().NameString) != fmt.Sprintf("%q", mint.Name(m.CName)) || cr.Domain() != m.CRealm {
				return evid.Fail("api-identity", "AcceptSecContext context does not carry the sealed identity %s@%s", m.CName, m.CRealm)
			}
			if status.Code != gssapi.StatusComplete {
				return evid.Fail("api-ok-status", "AcceptSecContext ok=true with status %v", status)
			}
		}
	}
	if q.Inner != "apreq" {
		var kt5 spnego.KRB5Token
		if kt5.Unmarshal(der.GSSWrap(der.OIDKRB5, innerOf(q))) == nil {
			if ok, st := kt5.Verify(); ok {
				return evid.Fail("api-ok-without-apreq:"+classify(q), "KRB5Token.Verify reported success (status %v) for a %s mech token", st, q.Inner)
			}
		}
	}
	return evid.Pass()
}

func hostAddr(n string) types.HostAddress {
	return types.HostAddress{AddrType: c01.AddrType(n), Address: c01.AddrBytes(n)}
}

func innerOf(q Req) []byte {
	q2 := q
	q2.Framing, q2.Mut = "raw-krb5", ""
	tok, _, err := buildToken(q2)
	if err != nil {
		return nil
	}
	_, in, _ := der.GSSUnwrap(tok)
	return in
}

// ---------------------------------------------------------------------------------------------

func drawAP(t *rapid.T, seed uint64, et int32) c01.Case {
	c := c01.Base(et, seed, "HTTP/svc.example.com")
	c.ApplySettings(rapid.SampledFrom([]int{0, 0, 10, 3600}).Draw(t, "skew"), rapid.IntRange(0, 5).Draw(t, "requireaddr") == 0,
		rapid.SampledFrom([]string{"", "", "A", "C", "V6"}).Draw(t, "clientaddr"),
		rapid.SampledFrom([]string{"", "", "", "alt", "missing"}).Draw(t, "ktprinc"), rapid.Bool().Draw(t, "decodepac"))
	nd := rapid.SampledFrom([]int{0, 0, 0, 1, 1, 2}).Draw(t, "ndefects")
	ds := []string{}
	for i := 0; i < nd; i++ {
		ds = append(ds, rapid.SampledFrom(c01.DefectNames).Draw(t, "defect"))
	}
	c.Apply(ds...)
	c.Replay = false
	return c
}

// drawAPUnder builds a request that is valid under the given settings and then applies the named defects.
func drawAPUnder(t *rapid.T, seed uint64, et int32, skew int, requireAddr bool, clientAddr, ktPrinc string, decodePAC bool, defects []string) c01.Case {
	c := c01.Base(et, seed, "HTTP/svc.example.com")
	c.ApplySettings(skew, requireAddr, clientAddr, ktPrinc, decodePAC)
	c.Apply(defects...)
	c.Replay = false
	return c
}

func drawReq(t *rapid.T, seed uint64, et int32, allowCookie bool) Req {
	q := Req{Header: rapid.SampledFrom([]string{"token", "token", "token", "token", "token", "token", "none", "basic", "neg-empty", "neg-empty2", "neg-notb64", "neg-random"}).Draw(t, "header")}
	q.AP = drawAP(t, seed, et)
	if q.Header == "neg-random" {
		q.Random = string(rapid.SliceOfN(rapid.Byte(), 0, 80).Draw(t, "random"))
	}
	if q.Header == "token" {
		q.Framing = rapid.SampledFrom(append(framings, "init-krb5", "init-krb5", "resp-krb5", "raw-krb5")).Draw(t, "framing")
		q.Inner = rapid.SampledFrom([]string{"apreq", "apreq", "apreq", "apreq", "aprep", "krberror", "garbage", "tokid-unknown"}).Draw(t, "inner")
		switch rapid.IntRange(0, 5).Draw(t, "mutmode") {
		case 0:
			q.Mut = fmt.Sprintf("trunc:%d", rapid.IntRange(0, 2000).Draw(t, "trunc"))
		case 1:
			q.Mut = fmt.Sprintf("sub:%d:%d", rapid.IntRange(0, 2000).Draw(t, "pos"), rapid.IntRange(0, 255).Draw(t, "val"))
		}
	}
	if allowCookie && q.Header != "token" && rapid.IntRange(0, 2).Draw(t, "again") == 0 {
		q.Header = "token-again"
	}
	if allowCookie {
		q.Cookie = rapid.SampledFrom([]string{"", "", "last", "last", "forged", "unauth"}).Draw(t, "cookie")
	}
	return q
}

func count(r *evid.Run, c Case, mode string) {
	nt := ""
	labels := []string{"mode:" + mode, "session_mgr:" + c.SessionMgr}
	if c.OneHandler {
		labels = append(labels, "one-handler-for-the-history")
	}
	for i, q := range c.Reqs {
		if q.Header == "token" && (q.Mut == "" || strings.HasPrefix(q.Mut, "sub")) || (i > 0 && q.Cookie != "") {
			nt = fmt.Sprintf("%v", c)
		}
		labels = append(labels, "header:"+q.Header)
		if q.Header == "token" {
			labels = append(labels, "framing:"+q.Framing, "inner:"+q.Inner)
			if q.Mut != "" {
				labels = append(labels, "mut:"+q.Mut[:strings.Index(q.Mut, ":")])
			}
			if q.Inner == "apreq" && q.Mut == "" {
				e := q.AP.Expect()
				switch {
				case e.Either:
					labels = append(labels, "apreq:undecided")
				case e.Accept:
					labels = append(labels, "apreq:acceptable")
				default:
					labels = append(labels, "apreq:defective")
				}
			}
		}
		if q.Cookie != "" {
			labels = append(labels, "cookie:"+q.Cookie)
		}
	}
	r.Count(nt, labels...)
}

func TestProp(t *testing.T) {
	r := evid.Start(t, "C03", "exploration")
	for _, k := range []string{"request", "history", "enum", "bytes"} {
		evid.Reg(r, k, Eval)
	}
	if r.Replay() {
		return
	}
	defer r.Finish()
	var pool evid.Pool[Case] // rapid-drawn cases, evaluated side by side once more at the end
	defer func() { evid.Concurrent(r, &pool, 16, Eval) }()
	if err := refcheck.All(); err != nil {
		r.Inconclusive("reference self-test failed: %v", err)
		return
	}
	r.Regress()
	r.Assume("tokens are built with ref/der (RFC 4178 / RFC 2743 framing) around AP-REQs minted as in C01; completeness (a valid AP-REQ must be served) is asserted only for the standard framings: KRB5 or MS-KRB5 first in mechTypes, NegTokenResp with a KRB5/MS-KRB5 supportedMech, raw KRB5 mech token")
	r.Rule("request: single requests: Authorization in {absent, Basic, bare Negotiate, non-base64, random bytes, token}; token = framing (14 kinds incl. empty/foreign mech lists, bare NegTokenInit, NegTokenResp, raw mech token) x inner {AP-REQ valid or with 0-2 catalogue defects, AP-REP, KRB-ERROR, unknown TOK_ID, garbage} x optional truncation / single-byte substitution; non-trivial = a syntactically framed token reaches verification")
	r.Rapid("request", r.N(5000, 200000), func(t *rapid.T) {
		c := Case{SessionMgr: rapid.SampledFrom([]string{"none", "none", "memory", "failnew", "failget"}).Draw(t, "sm")}
		c.Reqs = []Req{drawReq(t, rapid.Uint64().Draw(t, "seed"), rapid.SampledFrom(ref.ETypes).Draw(t, "etype"), false)}
		count(r, c, "request")
		r.Sample("request/"+c.Reqs[0].Header+"/"+c.Reqs[0].Framing+"/"+c.Reqs[0].Inner, c)
		v := Eval(c)
		if v.OK {
			pool.Add("request", c)
		}
		if r.Judge("request", c, v) {
			t.Fatalf("violation")
		}
	})
	r.Rule("history: sequences of 2-6 requests against one handler with session manager in {none, in-memory, failing New, failing Get, Get returning the record together with an error}, served by one handler for the whole history or by a fresh handler per request, the token-verification API also driven through one re-used token variable: token classes, a served token sent again octet for octet (never acceptable a second time), requests carrying the last session cookie or a forged one")
	r.Rapid("history", r.N(600, 30000), func(t *rapid.T) {
		c := Case{SessionMgr: rapid.SampledFrom([]string{"none", "memory", "memory", "memory", "failnew", "failget", "failget-stale"}).Draw(t, "sm"),
			OneHandler: rapid.Bool().Draw(t, "onehandler")}
		seed, et := rapid.Uint64().Draw(t, "seed"), rapid.SampledFrom(ref.ETypes).Draw(t, "etype")
		n := rapid.IntRange(2, 6).Draw(t, "n")
		for i := 0; i < n; i++ {
			q := drawReq(t, seed, et, true)
			if c.OneHandler && i > 0 {
				// the handler's settings are those of the first request: keep the later requests valid under them
				// (their own defects apart); the peer address stays each request's own
				f := c.Reqs[0].AP
				keep := q.AP.Defects
				q.AP = drawAPUnder(t, seed, et, f.SkewSec, f.RequireAddr, q.AP.ClientAddr, f.KtPrinc, f.DecodePAC, keep)
			}
			c.Reqs = append(c.Reqs, q)
		}
		count(r, c, "history")
		r.Sample("history/"+c.SessionMgr, c)
		v := Eval(c)
		if v.OK {
			pool.Add("history", c)
		}
		if r.Judge("history", c, v) {
			t.Fatalf("violation")
		}
	})
	// enumeration: every framing x every inner x {valid, each single defect (seeded slice in quick)} x session manager
	r.Rule("enum: every framing x every inner kind x {valid AP-REQ, every single catalogue defect} (quick: seeded 1/4 slice of defects); every truncation length and (thorough: every / quick: 6 values per position) single-byte substitution of a valid token in each standard framing, judged by the metamorphic relation served => identity is the sealed one")
	type job struct{ c Case }
	var jobs []job
	for fi, fr := range framings {
		for ii, in := range []string{"apreq", "aprep", "krberror", "garbage", "tokid-unknown"} {
			ds := [][]string{nil}
			if in == "apreq" {
				for di, d := range c01.DefectNames {
					if r.Thorough() || (di+fi+int(r.Seed()))%4 == 0 {
						ds = append(ds, []string{d})
					}
				}
			}
			for di, d := range ds {
				et := ref.ETypes[(fi+ii+di)%len(ref.ETypes)]
				ap := c01.Base(et, r.Seed()*7+uint64(fi*1000+ii*100+di), "HTTP/svc.example.com")
				ap.Apply(d...)
				ap.Replay = false
				sm := []string{"none", "memory", "failnew"}[(fi+di)%3]
				jobs = append(jobs, job{Case{SessionMgr: sm, Reqs: []Req{{Header: "token", Framing: fr, Inner: in, AP: ap}}}})
			}
		}
	}
	// replays: a served token sent again, octet for octet, under every pairing of PAC decoding, with and without a session
	for fi, fr := range []string{"init-krb5", "init-mskrb5-first", "init-krb5-ntlm", "resp-krb5", "resp-mskrb5", "raw-krb5"} {
		for k := 0; k < 16; k++ {
			et := ref.ETypes[(fi+k)%len(ref.ETypes)]
			ap := c01.Base(et, r.Seed()*11+uint64(fi*100+k), "HTTP/svc.example.com")
			ap.Replay = false
			first, again := ap, ap
			first.DecodePAC, again.DecodePAC = k&1 != 0, k&2 != 0
			if k&4 != 0 {
				first.Apply("pac-good")
			}
			jobs = append(jobs, job{Case{SessionMgr: []string{"none", "memory"}[(k>>3)&1], Reqs: []Req{{Header: "token", Framing: fr, Inner: "apreq", AP: first},
				{Header: "none", AP: again}, {Header: "token-again", AP: again}}}})
		}
	}
	evid.Parallel(len(jobs), 16, func(i int) {
		c := jobs[i].c
		count(r, c, "enum")
		r.Violation("enum", c, Eval(c))
	})
	// byte-level mutations of valid tokens
	var bjobs []Case
	for fi, fr := range []string{"init-krb5", "resp-krb5", "raw-krb5", "init-mskrb5-first"} {
		et := ref.ETypes[(fi+int(r.Seed()))%len(ref.ETypes)]
		ap := c01.Base(et, r.Seed()*13+uint64(fi), "HTTP/svc.example.com")
		tok, _, _ := buildToken(Req{Header: "token", Framing: fr, Inner: "apreq", AP: ap})
		for n := 0; n < len(tok); n++ {
			bjobs = append(bjobs, Case{SessionMgr: "none", Reqs: []Req{{Header: "token", Framing: fr, Inner: "apreq", AP: ap, Mut: fmt.Sprintf("trunc:%d", n)}}})
			vals := []int{0x00, 0xff, int(tok[n]) ^ 0x01, int(tok[n]) ^ 0x80, int(tok[n]) + 1, 0x30}
			if r.Thorough() {
				vals = vals[:0]
				for v := 0; v < 256; v++ {
					vals = append(vals, v)
				}
			}
			for _, v := range vals {
				if byte(v) == tok[n] {
					continue
				}
				bjobs = append(bjobs, Case{SessionMgr: "none", Reqs: []Req{{Header: "token", Framing: fr, Inner: "apreq", AP: ap, Mut: fmt.Sprintf("sub:%d:%d", n, v&0xff)}}})
			}
		}
	}
	evid.Parallel(len(bjobs), 16, func(i int) {
		c := bjobs[i]
		count(r, c, "bytes")
		if i%997 == 0 {
			r.Sample("bytes", c)
		}
		r.Violation("bytes", c, Eval(c))
	})
	r.Exhaustive("every truncation of a valid token in four standard framings")
}
