package c19

import (
	"encoding/hex"
	"fmt"
	"reflect"
	"strings"
	"sync"
	"testing"

	"pgregory.net/rapid"

	"verif/harness/evid"
	"verif/harness/kgen"
	ref "verif/harness/ref/krbcrypto"
	"verif/harness/ref/pacfmt"
	"verif/harness/refcheck"
)

// ---------------------------------------------------------------------------------------------
// generators

var fileTimes = []string{"LogonTime", "LogoffTime", "KickOffTime", "PasswordLastSet", "PasswordCanChange", "PasswordMustChange", "LastSuccessfulILogon", "LastFailedILogon"}
var nameFields = []string{"EffectiveName", "FullName", "LogonScript", "ProfilePath", "HomeDirectory", "HomeDirectoryDrive", "LogonServer", "LogonDomainName"}

const never = uint64(0x7fffffffffffffff)

func genFileTime(t *rapid.T, label string) uint64 {
	switch rapid.IntRange(0, 5).Draw(t, label+"-class") {
	case 0:
		return 0
	case 1:
		return never
	case 2:
		return rapid.Uint64Range(0, never).Draw(t, label) // anywhere in the FILETIME range Windows uses
	case 3:
		return rapid.Uint64Range(0, 1<<40).Draw(t, label) // shortly after 1601
	}
	// 1990 .. 2100
	return rapid.Uint64Range(122747616000000000, 157469184000000000).Draw(t, label)
}

var bmpClasses = [][2]rune{{'a', 'z'}, {'A', 'Z'}, {'0', '9'}, {0x20, 0x2f}, {0xc0, 0xff}, {0x391, 0x3c9}, {0x410, 0x44f}, {0x4e00, 0x4e80}, {0xe000, 0xe010}, {0xff01, 0xff5e}}

func genRune(t *rapid.T, supplementary bool) rune {
	if supplementary && rapid.IntRange(0, 3).Draw(t, "supp") == 0 {
		return rapid.SampledFrom([]rune{0x1f600, 0x10000, 0x10ffff, 0x1d11e, 0x20000}).Draw(t, "suprune")
	}
	c := rapid.SampledFrom(bmpClasses).Draw(t, "runeclass")
	return rune(rapid.IntRange(int(c[0]), int(c[1])).Draw(t, "rune"))
}

func genName(t *rapid.T, label string, min, max int, supplementary bool) string {
	n := rapid.IntRange(min, max).Draw(t, label+"-len")
	r := make([]rune, n)
	for i := range r {
		r[i] = genRune(t, supplementary)
	}
	return string(r)
}

func genSID(t *rapid.T, label string) GenSID {
	g := GenSID{Auth: 5}
	switch rapid.IntRange(0, 7).Draw(t, label+"-auth") {
	case 0:
		g.Auth = rapid.Uint64Range(0, 1<<32-1).Draw(t, label+"-auth32")
	case 1:
		g.Auth = rapid.Uint64Range(1<<32, 1<<48-1).Draw(t, label+"-auth48")
	}
	n := rapid.IntRange(1, 15).Draw(t, label+"-n")
	if rapid.IntRange(0, 2).Draw(t, label+"-dom") > 0 {
		n = 4
	}
	for i := 0; i < n; i++ {
		g.Subs = append(g.Subs, rapid.Uint32().Draw(t, label+"-sub"))
	}
	if n == 4 {
		g.Subs[0] = 21
	}
	return g
}

func genPairs(t *rapid.T, label string, min, max int) []uint32 {
	n := rapid.IntRange(min, max).Draw(t, label+"-n")
	out := []uint32{}
	for i := 0; i < n; i++ {
		out = append(out, rapid.OneOf(rapid.Uint32Range(500, 5000), rapid.Uint32()).Draw(t, label+"-rid"),
			rapid.SampledFrom([]uint32{7, 0x20000007, 0, 0xffffffff}).Draw(t, label+"-attr"))
	}
	return out
}

func genLogon(t *rapid.T, supplementary bool, fill int) *GenLogon {
	g := &GenLogon{FillGroups: fill}
	for _, f := range fileTimes {
		g.Times = append(g.Times, genFileTime(t, f))
	}
	for i, f := range nameFields {
		min := 0
		if i == 0 || i >= 6 {
			min = 1
		}
		g.Names = append(g.Names, genName(t, f, min, 20, supplementary))
	}
	g.NullEmpty = rapid.Bool().Draw(t, "null-empty")
	if rapid.IntRange(0, 2).Draw(t, "slack") == 0 {
		for range nameFields {
			g.Slack = append(g.Slack, rapid.IntRange(0, 2).Draw(t, "slack-chars"))
		}
	}
	g.U16 = []uint16{rapid.Uint16().Draw(t, "LogonCount"), rapid.Uint16().Draw(t, "BadPasswordCount")}
	for _, f := range []string{"UserID", "PrimaryGroupID", "UserFlags", "UserAccountControl", "SubAuthStatus", "FailedILogonCount"} {
		g.U32 = append(g.U32, rapid.Uint32().Draw(t, f))
	}
	g.Domain = genSID(t, "domain")
	g.Groups = genPairs(t, "groups", 0, 12)
	if fill == 0 && len(g.Groups) == 0 && rapid.Bool().Draw(t, "atleastone") {
		g.Groups = []uint32{513, 7}
	}
	ne := rapid.IntRange(0, 5).Draw(t, "extra-n")
	for i := 0; i < ne; i++ {
		g.Extra = append(g.Extra, genSID(t, "extra"))
		g.ExtraAttr = append(g.ExtraAttr, rapid.SampledFrom([]uint32{7, 0x20000007, 0}).Draw(t, "extra-attr"))
	}
	if ne > 0 && rapid.IntRange(0, 3).Draw(t, "extra-dup") == 0 {
		// an extra SID that repeats a domain group: the composition must not list it twice
		if len(g.Groups) >= 2 && len(g.Domain.Subs) < 15 {
			g.Extra[0] = GenSID{Auth: g.Domain.Auth, Subs: append(append([]uint32{}, g.Domain.Subs...), g.Groups[0])}
		}
	}
	if rapid.Bool().Draw(t, "resgroups") {
		d := genSID(t, "resdomain")
		g.ResDomain = &d
		g.ResGroups = genPairs(t, "resgroups", 1, 4)
	}
	return g
}

func hexKey(t *rapid.T, alg int32, label string) string {
	return hex.EncodeToString(kgen.Key(t, ref.ETypeForCksum(alg), label))
}

var optionalSources = []string{"win2k:upn", "claims:str", "claims:int", "claims:multi", "claims:multiuint", "claims:multistr", "claims:xpress", "claims:empty", "attrs", "requestor", "creds", "unknown"}

// genValid draws a well-formed, correctly signed presentation.
func genValid(t *rapid.T, kind string, allowGen bool) Case {
	c := Case{Kind: kind, T: Tamper{Kind: "none"}}
	c.SrvAlg = rapid.SampledFrom(pacfmt.SigTypes).Draw(t, "srv-alg")
	c.KDCAlg = rapid.SampledFrom(pacfmt.SigTypes).Draw(t, "kdc-alg")
	c.SrvKey, c.KDCKey = hexKey(t, c.SrvAlg, "srv-key"), hexKey(t, c.KDCAlg, "kdc-key")
	bases := []string{"win2k", "ms", "trust"}
	if allowGen {
		bases = append(bases, "gen", "gen")
	}
	var bufs []Buf
	switch base := rapid.SampledFrom(bases).Draw(t, "base"); base {
	case "win2k":
		bufs = []Buf{{Src: "win2k:logon"}, {Src: "win2k:client"}}
	case "ms":
		bufs = []Buf{{Src: "ms:logon"}, {Src: "ms:client"}}
	case "trust":
		bufs = []Buf{{Src: "trust:logon"}, {Src: "win2k:client"}}
	default:
		g := genLogon(t, false, 0)
		bufs = []Buf{{Src: "gen:logon", Gen: g}, {Src: "gen:client", Strs: []string{g.Names[0]}, Num: g.Times[0]}}
	}
	rodc := func(label string) *uint16 {
		if rapid.Bool().Draw(t, label) {
			v := rapid.Uint16().Draw(t, label+"-id")
			return &v
		}
		return nil
	}
	bufs = append(bufs, Buf{Src: "sig:server", RODC: rodc("srv-rodc")}, Buf{Src: "sig:kdc", RODC: rodc("kdc-rodc")})
	for _, o := range rapid.SliceOfNDistinct(rapid.SampledFrom(optionalSources), 0, 4, func(s string) string { return s }).Draw(t, "optional") {
		bufs = append(bufs, Buf{Src: o})
	}
	if rapid.IntRange(0, 3).Draw(t, "gen-upn") == 0 {
		bufs = append(bufs, Buf{Src: "gen:upn", Strs: []string{genName(t, "upn", 1, 30, false), genName(t, "dns", 1, 20, false)}, Num: uint64(rapid.IntRange(0, 3).Draw(t, "upn-flags"))})
	}
	// header order: Windows order (as captured) or any permutation
	if rapid.Bool().Draw(t, "permute-header") {
		bufs = rapid.Permutation(bufs).Draw(t, "header-order")
	}
	c.Bufs = bufs
	if rapid.IntRange(0, 2).Draw(t, "permute-data") == 0 {
		idx := make([]int, len(bufs))
		for i := range idx {
			idx[i] = i
		}
		c.DataOrder = rapid.Permutation(idx).Draw(t, "data-order")
	}
	if rapid.IntRange(0, 3).Draw(t, "gaps") == 0 {
		for range bufs {
			c.Gap = append(c.Gap, rapid.IntRange(0, 2).Draw(t, "gap"))
		}
		c.Tail = rapid.IntRange(0, 2).Draw(t, "tail")
	}
	if rapid.IntRange(0, 2).Draw(t, "fill") == 0 {
		c.Fill = rapid.Byte().Draw(t, "fill-byte")
	}
	return c
}

func indexOf(bufs []Buf, pred func(Buf) bool) []int {
	var out []int
	for i, b := range bufs {
		if pred(b) {
			out = append(out, i)
		}
	}
	return out
}

func srcType(b Buf) uint32 {
	switch {
	case b.Src == "sig:server":
		return 6
	case b.Src == "sig:kdc":
		return 7
	case b.Src == "gen:logon" || len(b.Src) > 6 && b.Src[len(b.Src)-6:] == ":logon":
		return 1
	case b.Src == "gen:client" || len(b.Src) > 7 && b.Src[len(b.Src)-7:] == ":client":
		return 10
	case b.Src == "gen:upn" || b.Src == "win2k:upn":
		return 12
	}
	return 0
}

// structural applies "remove" or "duplicate" to one buffer of a valid Case.
func genStructural(t *rapid.T, c Case) Case {
	switch rapid.SampledFrom([]string{"none", "none", "remove", "duplicate", "duplicate-differing"}).Draw(t, "structural") {
	case "remove":
		i := rapid.IntRange(0, len(c.Bufs)-1).Draw(t, "remove")
		// bias towards the mandatory buffers
		if m := indexOf(c.Bufs, func(b Buf) bool { return srcType(b) != 0 && srcType(b) != 12 }); rapid.Bool().Draw(t, "remove-mandatory") {
			i = rapid.SampledFrom(m).Draw(t, "remove-which")
		}
		c.Bufs = append(append([]Buf{}, c.Bufs[:i]...), c.Bufs[i+1:]...)
		c.DataOrder, c.Gap = nil, nil
	case "duplicate":
		i := rapid.IntRange(0, len(c.Bufs)-1).Draw(t, "duplicate")
		at := rapid.IntRange(0, len(c.Bufs)).Draw(t, "duplicate-at")
		d := c.Bufs[i]
		c.Bufs = append(append(append([]Buf{}, c.Bufs[:at]...), d), c.Bufs[at:]...)
		c.DataOrder, c.Gap = nil, nil
	case "duplicate-differing":
		// a second logon-information or client-information buffer with other contents: the first one counts
		cand := indexOf(c.Bufs, func(b Buf) bool {
			return b.Src == "win2k:logon" || b.Src == "ms:logon" || b.Src == "trust:logon" || b.Src == "win2k:client" || b.Src == "ms:client"
		})
		if len(cand) == 0 {
			return c
		}
		i := rapid.SampledFrom(cand).Draw(t, "dup-which")
		d := c.Bufs[i]
		if srcType(d) == 1 {
			d.Patch = []Patch{{Field: rapid.SampledFrom([]string{"UserID", "PrimaryGroupID", "GroupIDs", "LogonTime"}).Draw(t, "dup-field"), Value: uint64(rapid.Uint32().Draw(t, "dup-value"))}}
		} else {
			d.Patch = []Patch{{Field: "Name", Value: uint64(rapid.IntRange('a', 'z').Draw(t, "dup-char"))}}
		}
		at := rapid.IntRange(0, len(c.Bufs)).Draw(t, "duplicate-at")
		c.Bufs = append(append(append([]Buf{}, c.Bufs[:at]...), d), c.Bufs[at:]...)
		c.DataOrder, c.Gap = nil, nil
	}
	return c
}

var otherDeclared = []int32{-138, 15, 16, 19, 20, 12, 0, 1, 7, 8, -1, 17, 18, 10}

// genTamper draws a signature-level tamper for a Case (the Case may already lack buffers).
func genTamper(t *rapid.T, c Case, withBits bool) Case {
	kinds := []string{"none", "none", "wrongkey", "keybit", "declared", "declared-kdc", "sig-zero", "sig-random", "sig-is-kdc", "sig-kdc-not-zeroed", "sig-over-unzeroed", "sig-usage"}
	if withBits {
		kinds = append(kinds, "bit", "bit", "bit")
	}
	hasSrv := len(indexOf(c.Bufs, func(b Buf) bool { return b.Src == "sig:server" })) > 0
	hasKDC := len(indexOf(c.Bufs, func(b Buf) bool { return b.Src == "sig:kdc" })) > 0
	k := rapid.SampledFrom(kinds).Draw(t, "tamper")
	if !hasSrv && k != "bit" && k != "wrongkey" && k != "keybit" {
		k = "none"
	}
	if !hasKDC && (k == "sig-is-kdc" || k == "sig-kdc-not-zeroed" || k == "declared-kdc") {
		k = "none"
	}
	switch k {
	case "wrongkey":
		c.T = Tamper{Kind: k, Key: hexKey(t, c.SrvAlg, "wrong-key")}
		if c.T.Key == c.SrvKey {
			c.T = Tamper{Kind: "keybit", Bit: 0}
		}
	case "keybit":
		c.T = Tamper{Kind: k, Bit: rapid.IntRange(0, 8*ref.KeyLen(ref.ETypeForCksum(c.SrvAlg))-1).Draw(t, "key-bit")}
	case "declared", "declared-kdc":
		src, alg := "sig:server", c.SrvAlg
		if k == "declared-kdc" {
			src, alg = "sig:kdc", c.KDCAlg
			// the service cannot check the KDC signature: any of the five known types must do
			d := rapid.SampledFrom(pacfmt.SigTypes).Draw(t, "declared-kdc-type")
			if d != alg {
				c.Bufs = append([]Buf{}, c.Bufs...)
				for _, i := range indexOf(c.Bufs, func(b Buf) bool { return b.Src == src }) {
					dd := d
					c.Bufs[i].Declared = &dd
				}
			}
			return c
		}
		d := rapid.SampledFrom(otherDeclared).Draw(t, "declared-type")
		if d == alg {
			return c
		}
		c.Bufs = append([]Buf{}, c.Bufs...)
		for _, i := range indexOf(c.Bufs, func(b Buf) bool { return b.Src == src }) {
			dd := d
			c.Bufs[i].Declared = &dd
		}
	case "sig-usage":
		c.T = Tamper{Kind: k, Usage: rapid.SampledFrom([]uint32{0, 1, 2, 6, 11, 16, 18, 19, 23, 25, 1 << 31}).Draw(t, "usage")}
	case "sig-random":
		c.T = Tamper{Kind: k, Bit: rapid.IntRange(1, 1<<20).Draw(t, "sig-seed")}
	case "bit":
		b, err := build(c)
		if err != nil {
			return c
		}
		off := rapid.IntRange(0, len(b.pac)-1).Draw(t, "octet")
		// half of the drawn bits go to the header and the signature buffers, where single bits decide
		if rapid.Bool().Draw(t, "bit-focus") {
			var spans []pacfmt.Span
			spans = append(spans, pacfmt.Span{Lo: 0, Hi: pacfmt.HeaderLen(len(b.entries))})
			for _, e := range b.entries {
				if e.Type == 6 || e.Type == 7 {
					spans = append(spans, pacfmt.Span{Lo: int(e.Offset), Hi: int(e.Offset) + int(e.Size)})
				}
			}
			s := rapid.SampledFrom(spans).Draw(t, "bit-span")
			if s.Hi > s.Lo {
				off = rapid.IntRange(s.Lo, s.Hi-1).Draw(t, "octet-focus")
			}
		}
		c.T = Tamper{Kind: k, Bit: 8*off + rapid.IntRange(0, 7).Draw(t, "bit")}
	default:
		c.T = Tamper{Kind: k}
	}
	return c
}

// genPatch draws one attribute overwrite for the logon, client or UPN buffer of a valid Case.
func genPatch(t *rapid.T, c Case, supplementary bool) (Case, bool) {
	m, err := materials()
	if err != nil {
		return c, false
	}
	cand := indexOf(c.Bufs, func(b Buf) bool { ty := srcType(b); return ty == 1 || ty == 10 || ty == 12 })
	i := rapid.SampledFrom(cand).Draw(t, "patch-buffer")
	if rapid.IntRange(0, 3).Draw(t, "patch-logon") > 0 {
		i = indexOf(c.Bufs, func(b Buf) bool { return srcType(b) == 1 })[0]
	}
	it, err := c.item(m, i)
	if err != nil {
		return c, false
	}
	var p []Patch
	char := func(field string, n int) []Patch {
		if n == 0 {
			return nil
		}
		k := rapid.IntRange(0, n-1).Draw(t, "char-index")
		if supplementary && n >= 2 {
			if k == n-1 {
				k--
			}
			r := rapid.SampledFrom([]rune{0x1f600, 0x10000, 0x10ffff, 0x1d11e}).Draw(t, "suprune") - 0x10000
			return []Patch{{Field: field, Index: k, Value: uint64(0xd800 + r>>10)}, {Field: field, Index: k + 1, Value: uint64(0xdc00 + r&0x3ff)}}
		}
		return []Patch{{Field: field, Index: k, Value: uint64(genRune(t, false))}}
	}
	switch it.Type {
	case pacfmt.TypeLogonInfo:
		li, err := pacfmt.ParseLogonInfo(it.Data)
		if err != nil {
			return c, false
		}
		u32 := func(field string, n int) []Patch {
			if n == 0 {
				return nil
			}
			return []Patch{{Field: field, Index: rapid.IntRange(0, n-1).Draw(t, "index"), Value: uint64(rapid.OneOf(rapid.Uint32(), rapid.SampledFrom([]uint32{0, 1, 0xffffffff, 0x80000000})).Draw(t, "u32"))}}
		}
		class := rapid.SampledFrom([]string{"filetime", "filetime", "name", "name", "u16", "u32", "u32", "rid", "sid", "extrasid", "resgroup", "userflags", "sessionkey"}).Draw(t, "patch-class")
		if supplementary {
			class = "name"
		}
		switch class {
		case "filetime":
			f := rapid.SampledFrom(fileTimes).Draw(t, "field")
			p = []Patch{{Field: f, Value: genFileTime(t, f)}}
		case "name":
			names := []pacfmt.UnicodeString{li.EffectiveName, li.FullName, li.LogonScript, li.ProfilePath, li.HomeDirectory, li.HomeDirectoryDrive, li.LogonServer, li.LogonDomainName}
			var ne []int
			for k, n := range names {
				if len(n.Chars) > 0 {
					ne = append(ne, k)
				}
			}
			k := rapid.SampledFrom(ne).Draw(t, "name-field")
			p = char(nameFields[k]+".chars", len(names[k].Chars))
		case "u16":
			p = []Patch{{Field: rapid.SampledFrom([]string{"LogonCount", "BadPasswordCount"}).Draw(t, "field"), Value: uint64(rapid.Uint16().Draw(t, "u16"))}}
		case "u32":
			p = u32(rapid.SampledFrom([]string{"UserID", "PrimaryGroupID", "UserAccountControl", "SubAuthStatus", "FailedILogonCount", "Reserved1.0", "Reserved1.1", "Reserved3"}).Draw(t, "field"), 1)
		case "userflags":
			// mostly the bits that say whether ExtraSids / ResourceGroupIds are populated stay as they are; now and then
			// they take any value: the SIDs a PAC encodes are reported whatever those two bits say
			keep := uint32(0x220)
			if rapid.IntRange(0, 2).Draw(t, "free-dh-bits") == 0 {
				keep = 0
			}
			p = []Patch{{Field: "UserFlags", Value: uint64(li.UserFlags&keep | rapid.Uint32().Draw(t, "flags")&^keep)}}
		case "sessionkey":
			p = u32("UserSessionKey", 4)
		case "rid":
			p = u32("GroupIDs", 2*len(li.GroupIDs))
		case "sid":
			if li.LogonDomainID != nil {
				p = u32("LogonDomainID.sub", len(li.LogonDomainID.SubAuthority))
			}
		case "extrasid":
			if n := len(li.ExtraSIDs); n > 0 {
				k := rapid.IntRange(0, n-1).Draw(t, "extra-index")
				if rapid.Bool().Draw(t, "extra-attr") {
					p = []Patch{{Field: "ExtraSIDs", Index: 2*k + 1, Value: uint64(rapid.Uint32().Draw(t, "u32"))}}
				} else if s := li.ExtraSIDs[k].SID; s != nil {
					p = u32(fmt.Sprintf("ExtraSIDs.%d.sub", k), len(s.SubAuthority))
				}
			}
		case "resgroup":
			if rapid.Bool().Draw(t, "res-sid") && li.ResourceGroupDomainSID != nil {
				p = u32("ResourceGroupDomainSID.sub", len(li.ResourceGroupDomainSID.SubAuthority))
			} else {
				p = u32("ResourceGroupIDs", 2*len(li.ResourceGroupIDs))
			}
		}
	case pacfmt.TypeClientInfo:
		ci, err := pacfmt.ParseClientInfo(it.Data)
		if err != nil {
			return c, false
		}
		if !supplementary && rapid.Bool().Draw(t, "client-id") {
			p = []Patch{{Field: "ClientID", Value: genFileTime(t, "ClientID")}}
		} else {
			p = char("Name", int(ci.NameLength)/2)
		}
	case pacfmt.TypeUPNDNSInfo:
		u, err := pacfmt.ParseUPNDNSInfo(it.Data)
		if err != nil {
			return c, false
		}
		if rapid.Bool().Draw(t, "upn-or-dns") {
			p = char("UPN", int(u.UPNLength)/2)
		} else {
			p = char("DNS", int(u.DNSLength)/2)
		}
	}
	if len(p) == 0 {
		return c, false
	}
	c.Bufs = append([]Buf{}, c.Bufs...)
	c.Bufs[i].Patch = append(append([]Patch{}, c.Bufs[i].Patch...), p...)
	return c, true
}

// ---------------------------------------------------------------------------------------------

// patchChangesOneField is a self-check of the metamorphic machinery: the reference decodings of
// the unpatched and patched buffer differ in exactly one attribute, the named one.
func patchChangesOneField(c Case) error {
	m, err := materials()
	if err != nil {
		return err
	}
	for i, bf := range c.Bufs {
		if len(bf.Patch) == 0 || srcType(bf) != 1 {
			continue
		}
		after, err := c.item(m, i)
		if err != nil {
			return err
		}
		cc := c
		cc.Bufs = append([]Buf{}, c.Bufs...)
		cc.Bufs[i].Patch = nil
		before, err := cc.item(m, i)
		if err != nil {
			return err
		}
		a, err := pacfmt.ParseLogonInfo(before.Data)
		if err != nil {
			return err
		}
		b, err := pacfmt.ParseLogonInfo(after.Data)
		if err != nil {
			return fmt.Errorf("patched buffer no longer decodes: %v", err)
		}
		va, vb := reflect.ValueOf(*a), reflect.ValueOf(*b)
		var diff []string
		for f := 0; f < va.NumField(); f++ {
			n := va.Type().Field(f).Name
			if n == "Off" || n == "Structural" {
				continue
			}
			if !reflect.DeepEqual(va.Field(f).Interface(), vb.Field(f).Interface()) {
				diff = append(diff, n)
			}
		}
		if len(diff) > 1 {
			return fmt.Errorf("patch %v changes %v", bf.Patch, diff)
		}
	}
	return nil
}

func TestProp(t *testing.T) {
	r := evid.Start(t, "C19", "exploration")
	for _, n := range []string{"layout", "attr", "attr-utf16", "large", "enum", "flip", "e2e", "e2e-gen", "slack"} {
		evid.Reg(r, n, Eval)
	}
	if r.Replay() {
		return
	}
	defer r.Finish()
	var pool evid.Pool[Case] // rapid-drawn cases, evaluated side by side once more at the end
	defer func() { evid.Concurrent(r, &pool, 16, Eval) }()
	r.Regress()
	if err := refcheck.Crypto(); err != nil {
		r.Inconclusive("reference crypto self-test failed: %v", err)
		return
	}
	if err := pacfmt.SelfTest(samples()); err != nil {
		r.Inconclusive("reference PAC reader/assembler self-test failed: %v", err)
		return
	}
	if _, err := materials(); err != nil {
		r.Inconclusive("cannot decompose the sample PACs: %v", err)
		return
	}
	r.Assume("ref/pacfmt: container, signature, client-info, UPN and KERB_VALIDATION_INFO codecs written from MS-PAC 2 / C706 14 / MS-RPCE 2.2.6; validated at start-up against the three captured logon-information buffers (documented values, byte-identical re-encoding from values), the captured client-info / UPN / signature buffers, and the Windows-issued PAC, whose server signature verifies under the reference signing model with the service's keytab key and is reproduced bit for bit by re-signing")
	r.Assume("ref/krbcrypto.Checksum (RFC 3961/3962/8009/4757 keyed checksums), self-tested against the RFC vectors; key usage 17")
	r.Assume("where MS-PAC allows one buffer of a type the first in PAC_INFO_BUFFER order is the effective one (MS-PAC 2.4: additional buffers MUST be ignored)")

	var mu sync.Mutex
	harness := 0
	record := func(check string, c Case, v evid.Verdict, outcome string, b *built, rt *rapid.T) {
		if len(v.Sig) >= 8 && v.Sig[:8] == "harness:" {
			mu.Lock()
			harness++
			first := harness == 1
			mu.Unlock()
			if first {
				r.Inconclusive("harness self-disagreement in check %s: %s: %s case=%s", check, v.Sig, v.Msg, caseKey(c))
			}
			r.Count("", "harness-error")
			return
		}
		labels := []string{"outcome:" + outcome}
		nt := caseKey(c)
		if b != nil {
			labels = append(labels, features(c, b)...)
			if c.T.Kind == "none" && c.Captured {
				nt = "" // the original sample, as captured: the one trivial case
			}
		}
		r.Count(nt, labels...)
		r.Sample(c.Kind+"/"+c.T.Kind+"/"+outcome, c)
		if rt != nil {
			// (single-bit flips are judged in crash-isolated workers - the dependency's NDR decoder may ask for gigabytes - and
			// therefore stay out of the in-process concurrent pass)
			if v.OK && c.Kind != "e2e" && c.Kind != "basic" && c.T.Kind != "bit" && c.T.Kind != "cut" {
				pool.Add(check, c)
			}
			if r.Judge(check, c, v) {
				rt.Fatalf("violation %s", v.Sig)
			}
		} else {
			r.Violation(check, c, v)
		}
	}
	run := func(check string, c Case, rt *rapid.T) {
		b, err := build(c)
		if err != nil {
			r.Count("", "generator-discard")
			return
		}
		v, outcome := judge(c, b)
		record(check, c, v, outcome, b, rt)
	}

	// one flip worker for the rapid checks (rapid is sequential)
	rapidFlipper := &flipper{}
	defer rapidFlipper.close()
	runFlip := func(check string, c Case, rt *rapid.T) {
		b, err := build(c)
		if err != nil {
			r.Count("", "generator-discard")
			return
		}
		base := c
		base.T = Tamper{Kind: "none"}
		var res flipRes
		if err := rapidFlipper.run(base, c.T.Bit, c.T.Bit+1, func(x flipRes) { res = x }); err != nil {
			r.Inconclusive("flip worker: %v", err)
			return
		}
		record(check, c, res.V, res.Outcome, b, rt)
	}

	// ---- 1. layouts: structure and signature-level tampering -------------------------------
	r.Rule("layout (rapid): base {Windows-issued PAC, Microsoft example, trust-domain logon info, logon info built from drawn values} x server/KDC checksum type {-138,15,16,19,20}^2 with random keys of the matching etype x RODC identifier present/absent on each signature x 0-4 optional buffers (UPN_DNS_INFO captured or generated, six claims samples, empty claims, PAC_ATTRIBUTES, PAC_REQUESTOR, credentials, unknown type) x header order permuted x payload order permuted x extra padding / non-zero padding; then one of {none, remove a buffer, duplicate a buffer, duplicate logon/client info with other contents behind or before the original}; then one of {none, wrong key, one key bit, declared server type != algorithm (known, des3, unknown ids), declared KDC type != algorithm, signature zero / random / the KDC's / computed with the KDC signature not zeroed / computed over the unzeroed PAC / other key usage, single bit flip (crash-isolated)}; expectation from construction and, independently, from the reference verifier on the presented octets; accepted PACs have every reported attribute compared with the reference decoding. Non-trivial: everything but the captured PAC as captured; distinct by the whole Case")
	r.Rapid("layout", r.N(4000, 40000), func(t *rapid.T) {
		c := genValid(t, "layout", true)
		c = genStructural(t, c)
		c = genTamper(t, c, true)
		if c.T.Kind == "bit" {
			runFlip("layout", c, t)
			return
		}
		run("layout", c, t)
	})

	// ---- 2. attribute metamorphosis -------------------------------------------------------
	r.Rule("attr (rapid + enumerated): a valid presentation with one value of the logon-information buffer overwritten at the offset the reference reader computed (8 FILETIMEs incl. 0 / never / full range, UserId, PrimaryGroupId, counts, flags (the D/H bits, which say whether ExtraSids / ResourceGroupIds are populated, mostly left alone but also cleared, set and inverted: the encoded SIDs are reported whatever they say), session key, any group RID or attributes, any sub-authority of the domain / extra / resource SIDs, any name character replaced by a BMP character other than U+0000), or of client info (ClientId, name character) or UPN_DNS_INFO (UPN / DNS character), then re-signed: must be accepted and every reported attribute, including the changed one, must equal the reference decoding; the harness checks that the patch changes exactly one reference field. Enumerated: every fixed field of each captured logon buffer x {0, 1, all ones, never, seeded random}")
	attrRun := func(check string, c Case, rt *rapid.T) {
		if err := patchChangesOneField(c); err != nil {
			record(check, c, evid.Fail("harness:patch", "%v", err), "harness", nil, rt)
			return
		}
		run(check, c, rt)
	}
	r.Rapid("attr", r.N(3000, 30000), func(t *rapid.T) {
		c := genValid(t, "attr", true)
		c, ok := genPatch(t, c, false)
		if !ok {
			r.Count("", "generator-discard")
			return
		}
		attrRun("attr", c, t)
	})
	for _, base := range [][]Buf{{{Src: "win2k:logon"}, {Src: "win2k:client"}, {Src: "win2k:upn"}}, {{Src: "ms:logon"}, {Src: "ms:client"}}, {{Src: "trust:logon"}, {Src: "win2k:client"}}} {
		fields := append(append([]string{}, fileTimes...), "LogonCount", "BadPasswordCount", "UserID", "PrimaryGroupID", "UserAccountControl", "SubAuthStatus", "FailedILogonCount", "Reserved1.0", "Reserved1.1", "Reserved3")
		for fi, f := range fields {
			for vi, v := range []uint64{0, 1, 0xffffffffffffffff, never, 0} {
				if vi == 4 {
					v = uint64(bytesToU64(kgen.DetBytes(r.Seed(), "c19/attr/"+base[0].Src+f, 8)))
				}
				alg := pacfmt.SigTypes[(fi+vi)%len(pacfmt.SigTypes)]
				kalg := pacfmt.SigTypes[(fi+2*vi+1)%len(pacfmt.SigTypes)]
				c := Case{Kind: "attr", SrvAlg: alg, KDCAlg: kalg, T: Tamper{Kind: "none"},
					SrvKey: hex.EncodeToString(ref.RandomKey(ref.ETypeForCksum(alg), kgen.DetBytes(r.Seed(), "c19/attr/k"+f, 32))),
					KDCKey: hex.EncodeToString(ref.RandomKey(ref.ETypeForCksum(kalg), kgen.DetBytes(r.Seed(), "c19/attr/kk"+f, 32)))}
				c.Bufs = append(append([]Buf{}, base...), Buf{Src: "sig:server"}, Buf{Src: "sig:kdc"})
				c.Bufs[0].Patch = []Patch{{Field: f, Value: v}}
				attrRun("attr", c, nil)
			}
		}
		// UserFlags with the D (ExtraSids populated) and H (ResourceGroupIds populated) bits cleared, set and inverted
		for vi, v := range []uint64{0, 0x20, 0x200, 0x220, 0xfffffddf, 0xffffffff} {
			alg := pacfmt.SigTypes[vi%len(pacfmt.SigTypes)]
			c := Case{Kind: "attr", SrvAlg: alg, KDCAlg: alg, T: Tamper{Kind: "none"},
				SrvKey: hex.EncodeToString(ref.RandomKey(ref.ETypeForCksum(alg), kgen.DetBytes(r.Seed(), "c19/attr/uf/k", 32))),
				KDCKey: hex.EncodeToString(ref.RandomKey(ref.ETypeForCksum(alg), kgen.DetBytes(r.Seed(), "c19/attr/uf/kk", 32)))}
			c.Bufs = append(append([]Buf{}, base...), Buf{Src: "sig:server"}, Buf{Src: "sig:kdc"})
			c.Bufs[0].Patch = []Patch{{Field: "UserFlags", Value: v}}
			attrRun("attr", c, nil)
		}
	}

	// ---- 2b. names outside the Basic Multilingual Plane --------------------------------------
	r.Rule("attr-utf16 (enumerated): two adjacent UTF-16 code units of every non-empty name of the Windows-issued logon info, of the client-info name and of the UPN / DNS names overwritten by the surrogate pair of U+1F600, U+10000, U+10FFFF or U+1D11E (first and last position), re-signed: the reported name must be the encoded one")
	utf16Enum(r, run)

	// ---- 2c. large accounts -----------------------------------------------------------------
	r.Rule("large (rapid): logon info built from drawn values with 300-1500 further groups (buffers of 2.5-13 KiB, beyond the 4096-octet read-ahead of the NDR decoder), correctly signed: must be accepted and reported faithfully")
	r.Rapid("large", r.N(100, 1000), func(t *rapid.T) {
		c := genValid(t, "layout", false)
		g := genLogon(t, false, rapid.IntRange(300, 1500).Draw(t, "fill-groups"))
		i := indexOf(c.Bufs, func(b Buf) bool { return srcType(b) == 1 })[0]
		c.Bufs[i] = Buf{Src: "gen:logon", Gen: g}
		run("large", c, t)
	})

	// ---- 3. bounded-exhaustive structure ----------------------------------------------------
	r.Rule("enum: for each of three bases (Windows-issued buffers incl. UPN, Microsoft example, trust-domain logon info + claims) x every pair of server/KDC checksum types (25) with seeded keys: valid; each buffer removed; each buffer duplicated (in front and behind); logon / client info duplicated with other contents (in front and behind: the first one must be reported); every RODC combination; wrong key; every key bit (thorough; quick: 16 bits); every other declared server type from {-138,15,16,19,20,12,0,1,7,8,-1,17,18,10}; every other declared KDC type of the five; the six signature substitutions; eleven other key usages")
	enumStructure(r, run)
	r.Exhaustive("enum: bases x checksum-type pairs x {remove, duplicate} of every buffer x RODC combinations x declared types x signature substitutions")

	// ---- 3b. signature buffers that are longer than their fields ------------------------------
	slackChecks(r, record)

	// ---- 4. exhaustive single-bit flips -----------------------------------------------------
	enumFlips(r, record)

	// ---- 5. end to end through VerifyAPREQ --------------------------------------------------
	e2eChecks(r, record)
}

// slackChecks: signature buffers whose cbBufferSize is larger than type + Signature (+ RODCIdentifier).
func slackChecks(r *evid.Run, record recordFn) {
	r.Rule("slack (enumerated + rapid): a valid presentation whose server and / or KDC signature buffer carries 1-8 further octets behind its last field (with and without RODC identifier; one stray octet; rounded up to 8), correctly signed over everything but the two Signature fields. The verdict on the PAC itself is free (nothing says such a buffer must be refused); if it is accepted its attributes must be the encoded ones and flipping any single bit of the further octets, which are signed data, must make it fail")
	id := uint16(0x1f2e)
	type job struct {
		base     string
		alg      int32
		srv, kdc string
		sr, kr   bool
	}
	var jobs []job
	for _, base := range []string{"win2k", "ms", "trust"} {
		for _, alg := range pacfmt.SigTypes {
			for _, sl := range [][2]string{{"5a", ""}, {"", "5a"}, {"0102030405", "a1a2a3a4a5a6"}, {"000000000000", ""}, {"", "0000"}, {"ffffffffffffffff", "ff"}} {
				for _, rodc := range [][2]bool{{false, false}, {true, true}, {true, false}, {false, true}} {
					jobs = append(jobs, job{base, alg, sl[0], sl[1], rodc[0], rodc[1]})
				}
			}
		}
	}
	mk := func(base []Buf, alg, kalg int32, sk, kk string, srv, kdc string, sr, kr bool) Case {
		c := Case{Kind: "slack", SrvAlg: alg, KDCAlg: kalg, SrvKey: sk, KDCKey: kk, T: Tamper{Kind: "none"}}
		for _, bf := range base {
			switch bf.Src {
			case "sig:server":
				bf.Slack = srv
				if sr {
					bf.RODC = &id
				}
			case "sig:kdc":
				bf.Slack = kdc
				if kr {
					bf.RODC = &id
				}
			}
			c.Bufs = append(c.Bufs, bf)
		}
		return c
	}
	evid.Parallel(len(jobs), workers(), func(ji int) {
		j := jobs[ji]
		kalg := pacfmt.SigTypes[(ji/4)%len(pacfmt.SigTypes)]
		sk, kk := seededKeys(r.Seed(), fmt.Sprintf("c19/slack/%s/%d", j.base, j.alg), j.alg, kalg)
		c := mk(enumBases[j.base], j.alg, kalg, sk, kk, j.srv, j.kdc, j.sr, j.kr)
		v, outcome := evalSlack(c)
		b, _ := build(c)
		r.Label("slack-base:" + outcome)
		record("slack", c, v, outcome, b, nil)
	})
	r.Rapid("slack", r.N(300, 3000), func(t *rapid.T) {
		c := genValid(t, "slack", true)
		c.Bufs = append([]Buf{}, c.Bufs...)
		n := 0
		for i := range c.Bufs {
			if c.Bufs[i].Src == "sig:server" || c.Bufs[i].Src == "sig:kdc" {
				if k := rapid.IntRange(0, 8).Draw(t, "slack-octets"); k > 0 {
					c.Bufs[i].Slack = hex.EncodeToString(rapid.SliceOfN(rapid.Byte(), k, k).Draw(t, "slack"))
					n++
				}
			}
		}
		if n == 0 {
			r.Count("", "generator-discard")
			return
		}
		v, outcome := evalSlack(c)
		b, _ := build(c)
		r.Label("slack-base:" + outcome)
		record("slack", c, v, outcome, b, t)
	})
}

func utf16Enum(r *evid.Run, run runFn) {
	m, err := materials()
	if err != nil {
		return
	}
	li, err := pacfmt.ParseLogonInfo(m.src["win2k:logon"].Data)
	if err != nil {
		return
	}
	type target struct {
		buf   int
		field string
		n     int
	}
	var ts []target
	for i, u := range []pacfmt.UnicodeString{li.EffectiveName, li.FullName, li.LogonScript, li.ProfilePath, li.HomeDirectory, li.HomeDirectoryDrive, li.LogonServer, li.LogonDomainName} {
		if len(u.Chars) >= 2 {
			ts = append(ts, target{0, nameFields[i] + ".chars", len(u.Chars)})
		}
	}
	ts = append(ts, target{1, "Name", 9}, target{2, "UPN", 21}, target{2, "DNS", 11})
	k := 0
	for _, tg := range ts {
		for _, rn := range []rune{0x1f600, 0x10000, 0x10ffff, 0x1d11e} {
			for _, pos := range []int{0, tg.n - 2} {
				alg := pacfmt.SigTypes[k%len(pacfmt.SigTypes)]
				k++
				sk, kk := seededKeys(r.Seed(), fmt.Sprintf("c19/utf16/%d", k), alg, alg)
				c := Case{Kind: "attr", Bufs: append([]Buf{}, enumBases["win2k"]...), SrvAlg: alg, KDCAlg: alg, SrvKey: sk, KDCKey: kk, T: Tamper{Kind: "none"}}
				v := rn - 0x10000
				c.Bufs[tg.buf].Patch = []Patch{{Field: tg.field, Index: pos, Value: uint64(0xd800 + v>>10)}, {Field: tg.field, Index: pos + 1, Value: uint64(0xdc00 + v&0x3ff)}}
				run("attr-utf16", c, nil)
			}
		}
	}
}

func bytesToU64(b []byte) uint64 {
	var v uint64
	for _, x := range b[:8] {
		v = v<<8 | uint64(x)
	}
	return v
}

type runFn func(check string, c Case, rt *rapid.T)
type recordFn func(check string, c Case, v evid.Verdict, outcome string, b *built, rt *rapid.T)

func seededKeys(seed uint64, label string, srv, kdc int32) (string, string) {
	return hex.EncodeToString(ref.RandomKey(ref.ETypeForCksum(srv), kgen.DetBytes(seed, label+"/srv", 32))),
		hex.EncodeToString(ref.RandomKey(ref.ETypeForCksum(kdc), kgen.DetBytes(seed, label+"/kdc", 32)))
}

var enumBases = map[string][]Buf{
	"win2k": {{Src: "win2k:logon"}, {Src: "win2k:client"}, {Src: "win2k:upn"}, {Src: "sig:server"}, {Src: "sig:kdc"}},
	"ms":    {{Src: "ms:logon"}, {Src: "ms:client"}, {Src: "sig:server"}, {Src: "sig:kdc"}},
	"trust": {{Src: "trust:logon"}, {Src: "win2k:client"}, {Src: "claims:multi"}, {Src: "attrs"}, {Src: "sig:server"}, {Src: "sig:kdc"}},
}

// enumDes3Key: the service's key is a des3 key. [MS-PAC] defines no des3 signature type, so whatever the server
// signature declares and holds - the des3 checksum type 12 with its proper HMAC, with zeros, with random octets, or one
// of the PAC types - such a PAC has no valid server signature.
func enumDes3Key(r *evid.Run, run runFn) {
	for bi, base := range []string{"win2k", "ms", "trust"} {
		lbl := fmt.Sprintf("c19/des3/%s", base)
		sk := hex.EncodeToString(ref.RandomKey(ref.DES3, kgen.DetBytes(r.Seed(), lbl+"/sk", 32)))
		kk := hex.EncodeToString(ref.RandomKey(ref.AES128SHA1, kgen.DetBytes(r.Seed(), lbl+"/kk", 32)))
		n := len(enumBases[base])
		for _, d := range []int32{12, 15, 16, -138, 19, 20} {
			for ti, tk := range []string{"none", "sig-zero", "sig-random"} {
				c := Case{Kind: "layout", Bufs: append([]Buf{}, enumBases[base]...), SrvAlg: 12, KDCAlg: 15, SrvKey: sk, KDCKey: kk, T: Tamper{Kind: tk, Bit: 1 + bi + ti}}
				if d != 12 {
					dd := d
					c.Bufs[n-2].Declared = &dd
				}
				run("enum", c, nil)
			}
		}
	}
}

func enumStructure(r *evid.Run, run runFn) {
	enumDes3Key(r, run)
	type job struct {
		base     string
		srv, kdc int32
	}
	var jobs []job
	for _, base := range []string{"win2k", "ms", "trust"} {
		for _, s := range pacfmt.SigTypes {
			for _, k := range pacfmt.SigTypes {
				jobs = append(jobs, job{base, s, k})
			}
		}
	}
	evid.Parallel(len(jobs), workers(), func(ji int) {
		j := jobs[ji]
		lbl := fmt.Sprintf("c19/enum/%s/%d/%d", j.base, j.srv, j.kdc)
		sk, kk := seededKeys(r.Seed(), lbl, j.srv, j.kdc)
		mk := func() Case {
			return Case{Kind: "layout", Bufs: append([]Buf{}, enumBases[j.base]...), SrvAlg: j.srv, KDCAlg: j.kdc, SrvKey: sk, KDCKey: kk, T: Tamper{Kind: "none"}}
		}
		n := len(enumBases[j.base])
		run("enum", mk(), nil)
		for i := 0; i < n; i++ {
			c := mk()
			c.Bufs = append(append([]Buf{}, c.Bufs[:i]...), c.Bufs[i+1:]...)
			run("enum", c, nil)
			for _, at := range []int{0, n} {
				c = mk()
				d := c.Bufs[i]
				c.Bufs = append(append(append([]Buf{}, c.Bufs[:at]...), d), c.Bufs[at:]...)
				run("enum", c, nil)
			}
		}
		// a second logon-information / client-information buffer with other contents, behind and in front of
		// the original: the first in PAC_INFO_BUFFER order is the one that must be reported
		for i, p := range []Patch{{Field: "UserID", Value: 500}, {Field: "Name", Value: 'Z'}} {
			for _, at := range []int{0, n} {
				c := mk()
				d := c.Bufs[i]
				d.Patch = []Patch{p}
				c.Bufs = append(append(append([]Buf{}, c.Bufs[:at]...), d), c.Bufs[at:]...)
				run("enum", c, nil)
			}
		}
		for combo := 1; combo < 4; combo++ {
			c := mk()
			id := uint16(0x1234 + combo)
			if combo&1 != 0 {
				c.Bufs[n-2].RODC = &id
			}
			if combo&2 != 0 {
				id2 := id ^ 0xffff
				c.Bufs[n-1].RODC = &id2
			}
			run("enum", c, nil)
		}
		c := mk()
		c.T = Tamper{Kind: "wrongkey", Key: hex.EncodeToString(ref.RandomKey(ref.ETypeForCksum(j.srv), kgen.DetBytes(r.Seed(), lbl+"/wrong", 32)))}
		run("enum", c, nil)
		kbits := 8 * ref.KeyLen(ref.ETypeForCksum(j.srv))
		step := 1
		if r.Quick() {
			step = kbits / 16
		}
		for bit := ji % step; bit < kbits; bit += step {
			c = mk()
			c.T = Tamper{Kind: "keybit", Bit: bit}
			run("enum", c, nil)
		}
		for _, d := range otherDeclared {
			if d == j.srv {
				continue
			}
			c = mk()
			dd := d
			c.Bufs[n-2].Declared = &dd
			run("enum", c, nil)
		}
		for _, d := range pacfmt.SigTypes {
			if d == j.kdc {
				continue
			}
			c = mk()
			dd := d
			c.Bufs[n-1].Declared = &dd
			run("enum", c, nil)
		}
		for _, k := range []string{"sig-zero", "sig-random", "sig-is-kdc", "sig-kdc-not-zeroed", "sig-over-unzeroed"} {
			c = mk()
			c.T = Tamper{Kind: k, Bit: 1 + ji}
			run("enum", c, nil)
		}
		for _, u := range []uint32{0, 1, 2, 6, 11, 16, 18, 19, 23, 25, 1 << 31} {
			c = mk()
			c.T = Tamper{Kind: "sig-usage", Usage: u}
			run("enum", c, nil)
		}
	})
}

// flipLayouts lists the presentations whose every bit is flipped.
func flipLayouts(r *evid.Run) []Case {
	out := []Case{{Kind: "flip", Captured: true, T: Tamper{Kind: "none"}}}
	id1, id2 := uint16(0x2b67), uint16(0x00a1)
	add := func(label string, base []Buf, srv, kdc int32, mod func(c *Case)) {
		sk, kk := seededKeys(r.Seed(), "c19/flip/"+label, srv, kdc)
		c := Case{Kind: "flip", Bufs: append([]Buf{}, base...), SrvAlg: srv, KDCAlg: kdc, SrvKey: sk, KDCKey: kk, T: Tamper{Kind: "none"}}
		if mod != nil {
			mod(&c)
		}
		out = append(out, c)
	}
	// quick: the Microsoft example under HMAC-MD5 / SHA1-96-AES128 with RODC identifiers, header order reversed;
	// the trust-domain logon info with claims under the RFC 8009 types, payload order permuted, non-zero padding
	add("ms-rodc", enumBases["ms"], -138, 15, func(c *Case) {
		c.Bufs = []Buf{{Src: "sig:kdc", RODC: &id2}, {Src: "sig:server", RODC: &id1}, {Src: "ms:client"}, {Src: "ms:logon"}}
	})
	add("trust-sha2", enumBases["trust"], 19, 20, func(c *Case) {
		c.DataOrder = []int{5, 2, 0, 4, 3, 1}
		c.Fill = 0xa5
		c.Gap = []int{0, 1, 0, 0, 0, 0}
	})
	// the Windows-issued buffers re-signed with AES256 twice, claims, a second client-info and a second KDC
	// signature buffer (ignored duplicates whose octets are still signed)
	add("win2k-dups", nil, 16, 16, func(c *Case) {
		c.Bufs = []Buf{{Src: "win2k:logon"}, {Src: "win2k:client"}, {Src: "win2k:upn"}, {Src: "claims:str"}, {Src: "sig:server"}, {Src: "sig:kdc", RODC: &id1},
			{Src: "win2k:client", Patch: []Patch{{Field: "Name", Value: 'X'}}}, {Src: "sig:kdc"}}
	})
	add("ms-sha384", enumBases["ms"], 20, 19, nil)
	if r.Quick() {
		return out
	}
	// thorough: every server checksum type x 40 seeded layouts (base, KDC type, RODC, orders, duplicates, optional buffers)
	opt := []string{"win2k:upn", "claims:str", "claims:xpress", "claims:empty", "attrs", "requestor", "creds", "unknown"}
	for _, srv := range pacfmt.SigTypes {
		for k := 0; k < 40; k++ {
			lbl := fmt.Sprintf("t/%d/%d", srv, k)
			rnd := kgen.DetBytes(r.Seed(), "c19/flip/"+lbl, 64)
			base := [][]Buf{{{Src: "win2k:logon"}, {Src: "win2k:client"}}, {{Src: "ms:logon"}, {Src: "ms:client"}}, {{Src: "trust:logon"}, {Src: "win2k:client"}}}[int(rnd[0])%3]
			bufs := append([]Buf{}, base...)
			srvB, kdcB := Buf{Src: "sig:server"}, Buf{Src: "sig:kdc"}
			if rnd[1]&1 != 0 {
				v := uint16(rnd[2]) | uint16(rnd[3])<<8
				srvB.RODC = &v
			}
			if rnd[1]&2 != 0 {
				v := uint16(rnd[4]) | uint16(rnd[5])<<8
				kdcB.RODC = &v
			}
			bufs = append(bufs, srvB, kdcB)
			for i := 0; i < int(rnd[6])%4; i++ {
				bufs = append(bufs, Buf{Src: opt[int(rnd[7+i])%len(opt)]})
			}
			if rnd[12]%4 == 0 { // a duplicate of one buffer
				bufs = append(bufs, bufs[int(rnd[13])%len(bufs)])
			}
			// seeded Fisher-Yates on the header order
			if rnd[14]&1 != 0 {
				for i := len(bufs) - 1; i > 0; i-- {
					j := int(rnd[16+i%40]) % (i + 1)
					bufs[i], bufs[j] = bufs[j], bufs[i]
				}
			}
			kdc := pacfmt.SigTypes[int(rnd[15])%len(pacfmt.SigTypes)]
			add(lbl, bufs, srv, kdc, func(c *Case) {
				if rnd[14]&2 != 0 {
					idx := make([]int, len(c.Bufs))
					for i := range idx {
						idx[i] = i
					}
					for i := len(idx) - 1; i > 0; i-- {
						j := int(rnd[24+i%30]) % (i + 1)
						idx[i], idx[j] = idx[j], idx[i]
					}
					c.DataOrder = idx
				}
				if rnd[14]&4 != 0 {
					c.Fill = rnd[60]
				}
			})
		}
	}
	return out
}

func enumFlips(r *evid.Run, record recordFn) {
	r.Rule("flip (exhaustive per layout): EVERY single-bit flip of the whole signed PAC, evaluated in crash-isolated child processes with a capped address space (gokrb5 decodes the NDR buffers before it verifies; a flipped conformance count or cbBufferSize asks for gigabytes). Quick: the Windows-issued PAC as captured under its real key, the Microsoft example re-signed (HMAC-MD5 / AES128, both RODC identifiers, reversed header), the trust-domain PAC with claims (SHA256-128 / SHA384-192, permuted payloads, padding 0xa5), the Windows-issued buffers with claims and duplicated client-info / KDC-signature buffers (AES256 / AES256), the Microsoft example under SHA384-192 / SHA256-128. Thorough: + every server checksum type x 40 seeded layouts. Oracle: rejected (error, panic or death of the process, labelled) unless the bit lies in the KDC signature value, which is zeroed before hashing and which the service cannot check: those must be accepted with unchanged attributes. The reference verifier is run on every flipped PAC and must agree with that expectation")
	layouts := flipLayouts(r)
	type chunk struct {
		li, lo, hi int
	}
	var chunks []chunk
	builts := make([]*built, len(layouts))
	for li, c := range layouts {
		b, err := build(c)
		if err != nil {
			r.Inconclusive("flip layout %d does not build: %v", li, err)
			return
		}
		if !b.constr {
			r.Inconclusive("flip layout %d is not a valid presentation (%s)", li, b.why)
			return
		}
		builts[li] = b
		nb := 8 * len(b.pac)
		// interleave small chunks so that the expensive regions are spread over the workers
		const sz = 512
		for lo := 0; lo < nb; lo += sz {
			chunks = append(chunks, chunk{li, lo, min(lo+sz, nb)})
		}
		// the untampered layout itself, in this process
		v, outcome := judge(c, b)
		record("flip", c, v, outcome, b, nil)
	}
	nw := workers()
	fl := make([]*flipper, nw)
	for i := range fl {
		fl[i] = &flipper{}
	}
	var wg sync.WaitGroup
	next := make(chan int, len(chunks))
	for i := range chunks {
		next <- i
	}
	close(next)
	var failed sync.Once
	var cmu sync.Mutex
	causes := map[string]int{}
	for w := 0; w < nw; w++ {
		wg.Add(1)
		go func(f *flipper) {
			defer wg.Done()
			defer f.close()
			for ci := range next {
				ch := chunks[ci]
				c, b := layouts[ch.li], builts[ch.li]
				err := f.run(c, ch.lo, ch.hi, func(res flipRes) {
					cc := c
					cc.T = Tamper{Kind: "bit", Bit: res.Bit}
					reg := region(b, res.Bit/8)
					// labels: where the bit lies and what happened
					r.Label("flip-region:" + reg)
					r.Label("flip-outcome:" + reg + ":" + res.Outcome)
					if b.hasKDC && b.kdcValue.Contains(res.Bit/8) {
						r.Label("flip-kdc-signature-value-bit (expected to pass)")
					}
					if res.Note != "" {
						cmu.Lock()
						if n := res.Note; len(causes) < 12 || causes[n] > 0 || !strings.Contains(n, "out of memory") {
							causes[n]++
						}
						cmu.Unlock()
					}
					record("flip", cc, res.V, res.Outcome, nil, nil)
				})
				if err != nil {
					failed.Do(func() { r.Inconclusive("flip worker: %v", err) })
					return
				}
			}
		}(fl[w])
	}
	wg.Wait()
	r.Exhaustive("flip: every single-bit flip of every listed layout")
	r.Extra("flip_layouts", len(layouts))
	r.Extra("flip_worker_deaths", causes)
}
