// C19 — a PAC is accepted only with a valid server signature and is reported faithfully.
//
// Every PAC offered to gokrb5 is assembled and signed by the independent reference
// (ref/pacfmt over ref/krbcrypto) from a Case; the verdict is pure in the Case. Single-bit flips
// are evaluated in crash-isolated child processes (worker_test.go) because gokrb5 decodes the NDR
// buffers *before* it verifies the signature and the NDR dependency allocates whatever a flipped
// count field says (a fatal, unrecoverable out-of-memory): for C19 "returned an error", "panicked"
// and "died" all mean "not accepted" and are only labelled (robustness on malformed input is C04).
package c19

import (
	"bytes"
	"encoding/binary"
	"encoding/hex"
	"encoding/json"
	"fmt"
	"io"
	"log"
	"os"
	"reflect"
	"runtime"
	"runtime/debug"
	"sort"
	"strings"
	"sync"
	"testing"

	"github.com/jcmturner/gokrb5/v8/pac"
	"github.com/jcmturner/gokrb5/v8/test/testdata"
	"github.com/jcmturner/gokrb5/v8/types"
	"github.com/jcmturner/rpc/v2/mstypes"

	"verif/harness/evid"
	"verif/harness/kgen"
	ref "verif/harness/ref/krbcrypto"
	"verif/harness/ref/pacfmt"
)

// ---------------------------------------------------------------------------------------------
// Case

// Case describes one PAC presentation: the buffers in PAC_INFO_BUFFER order, where their payloads
// go, how both signatures are made, one tamper, and the key the service verifies with.
type Case struct {
	Kind      string `json:"kind"`               // layout | flip | attr | e2e (the check that made it)
	Captured  bool   `json:"captured,omitempty"` // the Windows-issued sample exactly as captured, under the real service key
	Bufs      []Buf  `json:"bufs,omitempty"`
	DataOrder []int  `json:"data_order,omitempty"`
	Gap       []int  `json:"gap,omitempty"`
	Fill      byte   `json:"fill,omitempty"`
	Tail      int    `json:"tail,omitempty"`
	SrvAlg    int32  `json:"srv_alg,omitempty"` // checksum type the server signature is computed with
	SrvKey    string `json:"srv_key,omitempty"` // the service's key (hex)
	KDCAlg    int32  `json:"kdc_alg,omitempty"`
	KDCKey    string `json:"kdc_key,omitempty"`
	T         Tamper `json:"tamper"`
}

// Buf is one buffer. Src names a captured buffer ("win2k:logon", "claims:str", ...), a signature
// ("sig:server", "sig:kdc"), or a generated one ("gen:logon" with Gen, "gen:client", "gen:upn",
// "hex" with Hex).
type Buf struct {
	Src      string    `json:"src"`
	Type     *uint32   `json:"type,omitempty"`     // ulType override
	Declared *int32    `json:"declared,omitempty"` // signature buffers: declared SignatureType when it is not the algorithm used
	RODC     *uint16   `json:"rodc,omitempty"`     // signature buffers: RODCIdentifier present
	Slack    string    `json:"slack,omitempty"`    // signature buffers (check "slack" only): further octets (hex) behind the last field, counted in cbBufferSize
	Patch    []Patch   `json:"patch,omitempty"`
	Gen      *GenLogon `json:"gen,omitempty"`
	Hex      string    `json:"hex,omitempty"`
	Strs     []string  `json:"strs,omitempty"` // gen:client [name], gen:upn [upn, dns]
	Num      uint64    `json:"num,omitempty"`  // gen:client ClientId, gen:upn flags
}

// Patch overwrites one value at an offset the reference reader computed for the named field.
type Patch struct {
	Field string `json:"field"`
	Index int    `json:"index,omitempty"`
	Value uint64 `json:"value"`
}

// Tamper is applied after signing.
type Tamper struct {
	Kind  string `json:"kind"` // none bit cut (Bit = octets kept) wrongkey keybit sig-zero sig-random sig-is-kdc sig-kdc-not-zeroed sig-usage sig-over-unzeroed
	Bit   int    `json:"bit,omitempty"`
	Key   string `json:"key,omitempty"`
	Usage uint32 `json:"usage,omitempty"`
}

// GenSID is S-1-<auth>-<subs>.
type GenSID struct {
	Auth uint64   `json:"auth"`
	Subs []uint32 `json:"subs"`
}

// GenLogon is a KERB_VALIDATION_INFO built from values by the reference writer.
type GenLogon struct {
	Times      []uint64 `json:"times"` // LogonTime LogoffTime KickOffTime PasswordLastSet PasswordCanChange PasswordMustChange LastSuccessfulILogon LastFailedILogon
	Names      []string `json:"names"` // EffectiveName FullName LogonScript ProfilePath HomeDirectory HomeDirectoryDrive LogonServer LogonDomainName
	U16        []uint16 `json:"u16"`   // LogonCount BadPasswordCount
	U32        []uint32 `json:"u32"`   // UserId PrimaryGroupId UserFlags(other bits) UserAccountControl SubAuthStatus FailedILogonCount
	Domain     GenSID   `json:"domain"`
	Groups     []uint32 `json:"groups"`                // rid, attributes, rid, attributes ...
	FillGroups int      `json:"fill_groups,omitempty"` // further groups (rid 100000+i, attributes 7): large accounts
	Extra      []GenSID `json:"extra,omitempty"`
	ExtraAttr  []uint32 `json:"extra_attr,omitempty"`
	ResDomain  *GenSID  `json:"res_domain,omitempty"`
	ResGroups  []uint32 `json:"res_groups,omitempty"`
	NullEmpty  bool     `json:"null_empty,omitempty"` // empty strings as null Buffer pointers (the way Samba and MIT-based KDCs encode them) instead of pointers to zero elements
	Slack      []int    `json:"slack,omitempty"`      // per name: MaximumLength exceeds Length by this many characters (conformance > variance)
}

func (g GenSID) sid() *pacfmt.SID { return pacfmt.NewSID(g.Auth, g.Subs...) }

func pairs(v []uint32) []pacfmt.GroupMembership {
	out := []pacfmt.GroupMembership{}
	for i := 0; i+1 < len(v); i += 2 {
		out = append(out, pacfmt.GroupMembership{RelativeID: v[i], Attributes: v[i+1]})
	}
	return out
}

func at[T any](s []T, i int) T {
	var z T
	if i < len(s) {
		return s[i]
	}
	return z
}

func (g *GenLogon) encode() []byte {
	li := &pacfmt.LogonInfo{}
	li.LogonTime, li.LogoffTime, li.KickOffTime = at(g.Times, 0), at(g.Times, 1), at(g.Times, 2)
	li.PasswordLastSet, li.PasswordCanChange, li.PasswordMustChange = at(g.Times, 3), at(g.Times, 4), at(g.Times, 5)
	li.LastSuccessfulILogon, li.LastFailedILogon = at(g.Times, 6), at(g.Times, 7)
	for i, u := range []*pacfmt.UnicodeString{&li.EffectiveName, &li.FullName, &li.LogonScript, &li.ProfilePath, &li.HomeDirectory, &li.HomeDirectoryDrive, &li.LogonServer, &li.LogonDomainName} {
		*u = pacfmt.NewUnicodeString(at(g.Names, i))
		if g.NullEmpty && len(u.Chars) == 0 {
			*u = pacfmt.UnicodeString{}
		} else if k := at(g.Slack, i); k > 0 && int(u.MaximumLength)+2*k < 0x10000 {
			u.MaximumLength += uint16(2 * k)
			u.MaxCount += uint32(k)
		}
	}
	li.LogonCount, li.BadPasswordCount = at(g.U16, 0), at(g.U16, 1)
	li.UserID, li.PrimaryGroupID, li.UserFlags = at(g.U32, 0), at(g.U32, 1), at(g.U32, 2)&^0x220
	li.UserAccountControl, li.SubAuthStatus, li.FailedILogonCount = at(g.U32, 3), at(g.U32, 4), at(g.U32, 5)
	li.LogonDomainID = g.Domain.sid()
	li.GroupIDs = pairs(g.Groups)
	for i := 0; i < g.FillGroups; i++ {
		li.GroupIDs = append(li.GroupIDs, pacfmt.GroupMembership{RelativeID: uint32(100000 + i), Attributes: 7})
	}
	if len(li.GroupIDs) == 0 {
		li.GroupIDs = nil
	}
	if len(g.Extra) > 0 {
		li.UserFlags |= 0x20 // D: ExtraSids is populated
		for i, e := range g.Extra {
			li.ExtraSIDs = append(li.ExtraSIDs, pacfmt.SIDAndAttributes{SID: e.sid(), Attributes: at(g.ExtraAttr, i)})
		}
	}
	if g.ResDomain != nil && len(g.ResGroups) >= 2 {
		li.UserFlags |= 0x200 // H: ResourceGroupIds is populated
		li.ResourceGroupDomainSID = g.ResDomain.sid()
		li.ResourceGroupIDs = pairs(g.ResGroups)
	}
	li.Normalize()
	return li.Encode()
}

// ---------------------------------------------------------------------------------------------
// Captured material

type material struct {
	src      map[string]pacfmt.Item
	win2kRaw []byte
	win2kKey []byte
	names    []string
}

var (
	matOnce sync.Once
	mat     *material
	matErr  error
)

func samples() pacfmt.Samples {
	return pacfmt.Samples{
		WIN2KPAC: testdata.MarshaledPAC_AD_WIN2K_PAC, ADDataMS: testdata.MarshaledPAC_AuthorizationData_MS,
		LogonInfo: testdata.MarshaledPAC_Kerb_Validation_Info, LogonInfoMS: testdata.MarshaledPAC_Kerb_Validation_Info_MS,
		LogonInfoTrust: testdata.MarshaledPAC_Kerb_Validation_Info_Trust, ClientInfo: testdata.MarshaledPAC_Client_Info,
		UPNDNSInfo: testdata.MarshaledPAC_UPN_DNS_Info, ServerSig: testdata.MarshaledPAC_Server_Signature,
		KDCSig: testdata.MarshaledPAC_KDC_Signature, KeytabSysHTTP: testdata.KEYTAB_SYSHTTP_TEST_GOKRB5,
	}
}

func unhex(s string) []byte { b, _ := hex.DecodeString(s); return b }

func le32(v uint32) []byte { b := make([]byte, 4); binary.LittleEndian.PutUint32(b, v); return b }

func materials() (*material, error) {
	matOnce.Do(func() {
		m := &material{src: map[string]pacfmt.Item{}}
		m.win2kRaw = unhex(testdata.MarshaledPAC_AD_WIN2K_PAC)
		p, err := pacfmt.Parse(m.win2kRaw)
		if err != nil {
			matErr = err
			return
		}
		for i, n := range []string{"win2k:logon", "win2k:client", "win2k:upn"} {
			m.src[n] = pacfmt.Item{Type: p.Entries[i].Type, Data: append([]byte{}, p.Data(i)...)}
		}
		msRaw, err := pacfmt.ExtractPAC(unhex(testdata.MarshaledPAC_AuthorizationData_MS), 4)
		if err != nil {
			matErr = err
			return
		}
		mp, err := pacfmt.Parse(msRaw)
		if err != nil {
			matErr = err
			return
		}
		m.src["ms:logon"] = pacfmt.Item{Type: 1, Data: append([]byte{}, mp.Data(0)...)}
		m.src["ms:client"] = pacfmt.Item{Type: 10, Data: append([]byte{}, mp.Data(1)...)}
		m.src["trust:logon"] = pacfmt.Item{Type: 1, Data: unhex(testdata.MarshaledPAC_Kerb_Validation_Info_Trust)}
		for n, h := range map[string]string{"claims:str": testdata.MarshaledPAC_ClientClaimsInfoStr, "claims:int": testdata.MarshaledPAC_ClientClaimsInfoInt,
			"claims:multi": testdata.MarshaledPAC_ClientClaimsInfoMulti, "claims:multiuint": testdata.MarshaledPAC_ClientClaimsInfoMultiUint,
			"claims:multistr": testdata.MarshaledPAC_ClientClaimsInfoMultiStr, "claims:xpress": testdata.MarshaledPAC_ClientClaimsInfo_XPRESS_HUFF} {
			m.src[n] = pacfmt.Item{Type: pacfmt.TypeClientClaims, Data: unhex(h)}
		}
		m.src["claims:empty"] = pacfmt.Item{Type: pacfmt.TypeClientClaims, Data: []byte{}}
		// PAC_ATTRIBUTES_INFO ([MS-PAC] 2.14): FlagsLength 2 bits, Flags PAC_WAS_REQUESTED — a type gokrb5 does not know
		m.src["attrs"] = pacfmt.Item{Type: pacfmt.TypeAttributes, Data: append(le32(2), le32(1)...)}
		// PAC_REQUESTOR ([MS-PAC] 2.15): a SID in its plain (non-NDR) form
		m.src["requestor"] = pacfmt.Item{Type: pacfmt.TypeRequestor, Data: unhex("010500000000000515000000" + "0ccecebc" + "20a360e6" + "3fdce887" + "51040000")}
		// PAC_CREDENTIAL_INFO ([MS-PAC] 2.6): Version 0, EncryptionType 18, opaque ciphertext; gokrb5 skips the type
		m.src["creds"] = pacfmt.Item{Type: pacfmt.TypeCredentials, Data: append(append(le32(0), le32(18)...), kgen.DetBytes(19, "c19/creds", 40)...)}
		m.src["unknown"] = pacfmt.Item{Type: 0x7f, Data: kgen.DetBytes(19, "c19/unknown", 21)}
		m.win2kKey, err = pacfmt.KeytabKey(unhex(testdata.KEYTAB_SYSHTTP_TEST_GOKRB5), 18, 2)
		if err != nil {
			matErr = err
			return
		}
		for n := range m.src {
			m.names = append(m.names, n)
		}
		sort.Strings(m.names)
		mat = m
	})
	return mat, matErr
}

// ---------------------------------------------------------------------------------------------
// Building the presentation

type built struct {
	pac      []byte
	entries  []pacfmt.Entry
	key      []byte // the key handed to gokrb5
	etype    int32
	constr   bool   // acceptance expected by construction
	why      string // the one reason for an expected rejection (names the failure signature)
	kdcValue pacfmt.Span
	hasKDC   bool
}

func patchWidth(field string) int {
	switch {
	case strings.HasSuffix(field, "Time") || strings.HasSuffix(field, "Set") || strings.HasSuffix(field, "Change") || strings.HasSuffix(field, "ILogon") || field == "ClientID":
		return 8
	case field == "LogonCount" || field == "BadPasswordCount" || strings.HasSuffix(field, ".chars") || field == "Name" || field == "UPN" || field == "DNS":
		return 2
	}
	return 4
}

func applyPatches(typ uint32, data []byte, ps []Patch) ([]byte, error) {
	if len(ps) == 0 {
		return data, nil
	}
	data = append([]byte{}, data...)
	var off map[string]int
	switch typ {
	case pacfmt.TypeLogonInfo:
		li, err := pacfmt.ParseLogonInfo(data)
		if err != nil {
			return nil, err
		}
		off = li.Off
	case pacfmt.TypeClientInfo:
		ci, err := pacfmt.ParseClientInfo(data)
		if err != nil {
			return nil, err
		}
		off = map[string]int{"ClientID": 0, "Name": ci.NameOff}
	case pacfmt.TypeUPNDNSInfo:
		u, err := pacfmt.ParseUPNDNSInfo(data)
		if err != nil {
			return nil, err
		}
		off = map[string]int{"UPN": int(u.UPNOffset), "DNS": int(u.DNSOffset), "Flags": 8}
	default:
		return nil, fmt.Errorf("no patchable fields in buffer type %d", typ)
	}
	for _, p := range ps {
		o, ok := off[p.Field]
		if !ok {
			return nil, fmt.Errorf("no field %q", p.Field)
		}
		w := patchWidth(p.Field)
		o += w * p.Index
		if o < 0 || o+w > len(data) {
			return nil, fmt.Errorf("patch %s[%d] outside the buffer", p.Field, p.Index)
		}
		switch w {
		case 2:
			binary.LittleEndian.PutUint16(data[o:], uint16(p.Value))
		case 4:
			binary.LittleEndian.PutUint32(data[o:], uint32(p.Value))
		case 8:
			binary.LittleEndian.PutUint64(data[o:], p.Value)
		}
	}
	return data, nil
}

func (c *Case) item(m *material, i int) (pacfmt.Item, error) {
	bf := c.Bufs[i]
	var it pacfmt.Item
	switch bf.Src {
	case "sig:server", "sig:kdc":
		alg, typ := c.SrvAlg, pacfmt.TypeServerChecksum
		if bf.Src == "sig:kdc" {
			alg, typ = c.KDCAlg, pacfmt.TypeKDCChecksum
		}
		decl := alg
		if bf.Declared != nil {
			decl = *bf.Declared
		}
		n := pacfmt.SigLen(decl)
		if n == 0 {
			n = pacfmt.SigLen(alg)
		}
		if n == 0 {
			n = 20 // neither is a PAC checksum type (hmac-sha1-des3-kd under a des3 service key): room for its 20 octets
		}
		it = pacfmt.Item{Type: typ, Data: append(pacfmt.SignatureBuffer(decl, n, bf.RODC), unhex(bf.Slack)...)}
	case "gen:logon":
		if bf.Gen == nil {
			return it, fmt.Errorf("gen:logon without values")
		}
		it = pacfmt.Item{Type: pacfmt.TypeLogonInfo, Data: bf.Gen.encode()}
	case "gen:client":
		it = pacfmt.Item{Type: pacfmt.TypeClientInfo, Data: pacfmt.EncodeClientInfo(bf.Num, at(bf.Strs, 0))}
	case "gen:upn":
		it = pacfmt.Item{Type: pacfmt.TypeUPNDNSInfo, Data: pacfmt.EncodeUPNDNSInfo(at(bf.Strs, 0), at(bf.Strs, 1), uint32(bf.Num))}
	case "hex":
		it = pacfmt.Item{Type: 0x7e, Data: unhex(bf.Hex)}
	default:
		s, ok := m.src[bf.Src]
		if !ok {
			return it, fmt.Errorf("unknown buffer source %q", bf.Src)
		}
		it = pacfmt.Item{Type: s.Type, Data: append([]byte{}, s.Data...)}
	}
	d, err := applyPatches(it.Type, it.Data, bf.Patch)
	if err != nil {
		return it, fmt.Errorf("buffer %d (%s): %v", i, bf.Src, err)
	}
	it.Data = d
	if bf.Type != nil {
		it.Type = *bf.Type
	}
	return it, nil
}

func setWhy(b *built, why string) {
	if b.constr {
		b.constr, b.why = false, why
	}
}

// build renders the Case with the reference assembler and signer.
func build(c Case) (*built, error) {
	m, err := materials()
	if err != nil {
		return nil, err
	}
	b := &built{constr: true}
	var srvDeclared int32
	if c.Captured {
		b.pac = append([]byte{}, m.win2kRaw...)
		p, err := pacfmt.Parse(b.pac)
		if err != nil {
			return nil, err
		}
		b.entries, b.key, b.etype = p.Entries, append([]byte{}, m.win2kKey...), 18
		srvDeclared = 16
	} else {
		items := make([]pacfmt.Item, len(c.Bufs))
		for i := range c.Bufs {
			if items[i], err = c.item(m, i); err != nil {
				return nil, err
			}
		}
		b.pac, b.entries = pacfmt.Assemble(items, pacfmt.Layout{DataOrder: c.DataOrder, Gap: c.Gap, Fill: c.Fill, TailUnits: c.Tail})
		b.key, b.etype = unhex(c.SrvKey), ref.ETypeForCksum(c.SrvAlg)
		srvDeclared = c.SrvAlg
		if i := pacfmt.First(b.entries, pacfmt.TypeServerChecksum); i >= 0 {
			srvDeclared = int32(binary.LittleEndian.Uint32(b.pac[b.entries[i].Offset:]))
		}
		// the fill byte must not leak into the signature fields the signer leaves alone
		for _, t := range []uint32{pacfmt.TypeServerChecksum, pacfmt.TypeKDCChecksum} {
			if sp, ok := pacfmt.ValueSpan(b.pac, b.entries, t); ok {
				for j := sp.Lo; j < sp.Hi; j++ {
					b.pac[j] = 0
				}
			}
		}
		usage := pacfmt.KeyUsage
		if c.T.Kind == "sig-usage" {
			usage = c.T.Usage
		}
		if ssp, ok := pacfmt.ValueSpan(b.pac, b.entries, pacfmt.TypeServerChecksum); ok {
			sv, err := ref.Checksum(c.SrvAlg, b.key, usage, pacfmt.SignedData(b.pac, b.entries))
			if err != nil {
				return nil, fmt.Errorf("reference signing: %v", err)
			}
			copy(b.pac[ssp.Lo:ssp.Hi], fitTo(sv, ssp.Hi-ssp.Lo))
			if ksp, ok := pacfmt.ValueSpan(b.pac, b.entries, pacfmt.TypeKDCChecksum); ok {
				kv, err := ref.Checksum(c.KDCAlg, unhex(c.KDCKey), pacfmt.KeyUsage, b.pac[ssp.Lo:ssp.Hi])
				if err != nil {
					return nil, fmt.Errorf("reference signing (KDC): %v", err)
				}
				copy(b.pac[ksp.Lo:ksp.Hi], fitTo(kv, ksp.Hi-ksp.Lo))
			}
		}
	}
	for _, t := range pacfmt.MissingMandatory(b.entries) {
		setWhy(b, fmt.Sprintf("missing-buffer-%d", t))
	}
	for _, bf := range c.Bufs {
		if bf.Slack != "" && c.Kind != "slack" {
			return nil, fmt.Errorf("trailing octets in a signature buffer belong to the slack check")
		}
	}
	if !c.Captured && srvDeclared != c.SrvAlg {
		setWhy(b, "declared-type")
	}
	if !c.Captured && pacfmt.SigLen(c.SrvAlg) == 0 {
		setWhy(b, "not-a-pac-signature-type") // e.g. hmac-sha1-des3-kd under a des3 service key
	}
	ssp, hasSrv := pacfmt.ValueSpan(b.pac, b.entries, pacfmt.TypeServerChecksum)
	b.kdcValue, b.hasKDC = pacfmt.ValueSpan(b.pac, b.entries, pacfmt.TypeKDCChecksum)
	needSrv := func() error {
		if !hasSrv || ssp.Hi == ssp.Lo {
			return fmt.Errorf("tamper %s needs a server signature", c.T.Kind)
		}
		return nil
	}
	switch c.T.Kind {
	case "", "none":
	case "bit":
		if c.T.Bit < 0 || c.T.Bit >= 8*len(b.pac) {
			return nil, fmt.Errorf("bit %d outside the %d-octet PAC", c.T.Bit, len(b.pac))
		}
		b.pac[c.T.Bit/8] ^= 1 << uint(c.T.Bit%8)
		if !(b.hasKDC && b.kdcValue.Contains(c.T.Bit/8)) {
			setWhy(b, "bit:"+region(b, c.T.Bit/8))
		}
	case "cut":
		if c.T.Bit < 0 || c.T.Bit >= len(b.pac) {
			return nil, fmt.Errorf("cut to %d octets of a %d-octet PAC", c.T.Bit, len(b.pac))
		}
		b.pac = b.pac[:c.T.Bit]
		setWhy(b, "cut")
	case "wrongkey", "keybit":
		k := unhex(c.T.Key)
		if c.T.Kind == "keybit" {
			k = append([]byte{}, b.key...)
			k[(c.T.Bit/8)%len(k)] ^= 1 << uint(c.T.Bit%8)
		}
		if bytes.Equal(k, b.key) || len(k) != len(b.key) {
			return nil, fmt.Errorf("tamper %s does not change the key", c.T.Kind)
		}
		b.key = k
		setWhy(b, "wrong-key")
	case "sig-usage":
		if err := needSrv(); err != nil {
			return nil, err
		}
		if c.T.Usage == pacfmt.KeyUsage {
			return nil, fmt.Errorf("sig-usage with the right usage")
		}
		setWhy(b, "sig-other-usage")
	case "sig-zero", "sig-random", "sig-is-kdc", "sig-kdc-not-zeroed", "sig-over-unzeroed":
		if err := needSrv(); err != nil {
			return nil, err
		}
		old := append([]byte{}, b.pac[ssp.Lo:ssp.Hi]...)
		var nv []byte
		switch c.T.Kind {
		case "sig-zero":
			nv = make([]byte, len(old))
		case "sig-random":
			nv = kgen.DetBytes(uint64(c.T.Bit), "c19/sig-random", len(old))
		case "sig-is-kdc":
			if !b.hasKDC {
				return nil, fmt.Errorf("sig-is-kdc needs a KDC signature")
			}
			nv = fitTo(b.pac[b.kdcValue.Lo:b.kdcValue.Hi], len(old))
		case "sig-kdc-not-zeroed":
			// what a verifier would expect that zeroes the server signature only
			if !b.hasKDC || b.kdcValue.Hi == b.kdcValue.Lo {
				return nil, fmt.Errorf("sig-kdc-not-zeroed needs a KDC signature")
			}
			z := append([]byte{}, b.pac...)
			for j := ssp.Lo; j < ssp.Hi; j++ {
				z[j] = 0
			}
			sv, err := ref.Checksum(srvDeclared, b.key, pacfmt.KeyUsage, z)
			if err != nil {
				return nil, err
			}
			nv = fitTo(sv, len(old))
		case "sig-over-unzeroed":
			// what a verifier would expect that hashes the PAC as received
			sv, err := ref.Checksum(srvDeclared, b.key, pacfmt.KeyUsage, b.pac)
			if err != nil {
				return nil, err
			}
			nv = fitTo(sv, len(old))
		}
		if bytes.Equal(nv, old) {
			return nil, fmt.Errorf("tamper %s leaves the signature unchanged", c.T.Kind)
		}
		copy(b.pac[ssp.Lo:ssp.Hi], nv)
		setWhy(b, c.T.Kind)
	default:
		return nil, fmt.Errorf("unknown tamper %q", c.T.Kind)
	}
	return b, nil
}

func fitTo(v []byte, n int) []byte {
	out := make([]byte, n)
	copy(out, v)
	return out
}

// region names the part of the PAC an octet belongs to (labels and failure signatures).
func region(b *built, off int) string {
	n := len(b.entries)
	switch {
	case off < 4:
		return "header.cBuffers"
	case off < 8:
		return "header.version"
	case off < pacfmt.HeaderLen(n):
		switch (off - 8) % 16 {
		case 0, 1, 2, 3:
			return "header.ulType"
		case 4, 5, 6, 7:
			return "header.cbBufferSize"
		}
		return "header.offset"
	}
	seen := map[uint32]bool{}
	for _, e := range b.entries {
		first := !seen[e.Type]
		seen[e.Type] = true
		if off < int(e.Offset) || off >= int(e.Offset)+int(e.Size) {
			continue
		}
		rel := off - int(e.Offset)
		dup := ""
		if !first {
			dup = "dup-"
		}
		switch e.Type {
		case pacfmt.TypeServerChecksum, pacfmt.TypeKDCChecksum:
			name := "server-sig"
			if e.Type == pacfmt.TypeKDCChecksum {
				name = "kdc-sig"
			}
			n := 0
			if e.Size >= 4 {
				n = pacfmt.SigLen(int32(binary.LittleEndian.Uint32(b.pac[e.Offset:])))
			}
			// the declared type is read from the presented bytes; a flip inside the type field is still "type"
			switch {
			case rel < 4:
				return dup + name + ".type"
			case n == 0 || rel < 4+n:
				return dup + name + ".value"
			}
			return dup + name + ".rodc"
		case pacfmt.TypeLogonInfo:
			return dup + "logon-info"
		case pacfmt.TypeClientInfo:
			return dup + "client-info"
		case pacfmt.TypeUPNDNSInfo:
			return dup + "upn-dns-info"
		}
		return dup + "other-buffer"
	}
	return "padding"
}

// ---------------------------------------------------------------------------------------------
// Reference verdict and observation of gokrb5

// refAccept is the independent restatement of the property on the presented octets: strict
// container, four mandatory buffers, decodable logon and client information, and a server
// signature that equals the reference checksum of the declared type under the service key.
func refAccept(p []byte, key []byte) bool {
	pp, err := pacfmt.Parse(p)
	if err != nil {
		return false
	}
	if len(pacfmt.MissingMandatory(pp.Entries)) > 0 {
		return false
	}
	if _, err := pacfmt.ParseLogonInfo(pp.Data(pacfmt.First(pp.Entries, pacfmt.TypeLogonInfo))); err != nil {
		return false
	}
	if _, err := pacfmt.ParseClientInfo(pp.Data(pacfmt.First(pp.Entries, pacfmt.TypeClientInfo))); err != nil {
		return false
	}
	ok, err := pacfmt.VerifyServer(p, pp.Entries, key)
	return err == nil && ok
}

var discard = log.New(io.Discard, "", 0)

// observe runs gokrb5 on the octets. outcome is "accept", "error:<class>" or "panic:<site>".
func observe(p []byte, key []byte, etype int32) (outcome string, pt *pac.PACType, errText string) {
	defer func() {
		if r := recover(); r != nil {
			outcome, pt = "panic:"+evid.PanicSite(string(debug.Stack())), nil
			errText = fmt.Sprint(r)
		}
	}()
	var t pac.PACType
	if err := t.Unmarshal(append([]byte{}, p...)); err != nil {
		return "error:container", nil, err.Error()
	}
	if err := t.ProcessPACInfoBuffers(types.EncryptionKey{KeyType: etype, KeyValue: append([]byte{}, key...)}, discard); err != nil {
		return "error:" + errClass(err.Error()), nil, err.Error()
	}
	return "accept", &t, ""
}

func errClass(s string) string {
	switch {
	case strings.Contains(s, "checksum verification failed"):
		return "checksum"
	case strings.Contains(s, "does not contain"):
		return "missing-buffer"
	case strings.Contains(s, "KerbValidationInfo"):
		return "logon-info-decode"
	case strings.Contains(s, "ClientInfo"):
		return "client-info-decode"
	case strings.Contains(s, "ServerChecksum"), strings.Contains(s, "KDCChecksum"):
		return "signature-decode"
	case strings.Contains(s, "unsupported checksum"):
		return "unsupported-type"
	}
	return "other"
}

func ft(f mstypes.FileTime) uint64 { return uint64(f.HighDateTime)<<32 | uint64(f.LowDateTime) }

func hasSupplementary(s string) bool {
	for _, r := range s {
		if r >= 0x10000 {
			return true
		}
	}
	return false
}

// attrs compares everything gokrb5 reports about the accepted PAC with the reference decoding of
// the effective (first) buffers of the presented octets. It returns "" or a signature and message.
func attrs(t *pac.PACType, p []byte, es []pacfmt.Entry) (sig, msg string) {
	data := func(typ uint32) []byte {
		i := pacfmt.First(es, typ)
		if i < 0 {
			return nil
		}
		return p[es[i].Offset : es[i].Offset+uint64(es[i].Size)]
	}
	li, err := pacfmt.ParseLogonInfo(data(pacfmt.TypeLogonInfo))
	if err != nil {
		return "harness:reference-logon-info", err.Error()
	}
	k := t.KerbValidationInfo
	if k == nil {
		return "attr:KerbValidationInfo", "accepted without KerbValidationInfo"
	}
	type cmp struct {
		f    string
		g, w any
	}
	str := func(f string, g mstypes.RPCUnicodeString, w pacfmt.UnicodeString) []cmp {
		return []cmp{{f, g.Value, w.String()}, {f + ".Length", g.Length, w.Length}, {f + ".MaximumLength", g.MaximumLength, w.MaximumLength}}
	}
	sidStr := func(g mstypes.RPCSID, w *pacfmt.SID) (string, string) {
		if w == nil {
			if g.SubAuthorityCount == 0 && len(g.SubAuthority) == 0 {
				return "", ""
			}
			return g.String(), "(absent)"
		}
		return g.String(), w.String()
	}
	gm := func(g []mstypes.GroupMembership) []pacfmt.GroupMembership {
		var out []pacfmt.GroupMembership
		for _, x := range g {
			out = append(out, pacfmt.GroupMembership{RelativeID: x.RelativeID, Attributes: x.Attributes})
		}
		return out
	}
	var usk [16]byte
	copy(usk[:8], k.UserSessionKey.CypherBlock[0].Data[:])
	copy(usk[8:], k.UserSessionKey.CypherBlock[1].Data[:])
	cs := []cmp{
		{"LogOnTime", ft(k.LogOnTime), li.LogonTime}, {"LogOffTime", ft(k.LogOffTime), li.LogoffTime}, {"KickOffTime", ft(k.KickOffTime), li.KickOffTime},
		{"PasswordLastSet", ft(k.PasswordLastSet), li.PasswordLastSet}, {"PasswordCanChange", ft(k.PasswordCanChange), li.PasswordCanChange},
		{"PasswordMustChange", ft(k.PasswordMustChange), li.PasswordMustChange},
		{"LastSuccessfulILogon", ft(k.LastSuccessfulILogon), li.LastSuccessfulILogon}, {"LastFailedILogon", ft(k.LastFailedILogon), li.LastFailedILogon},
		{"LogonCount", k.LogonCount, li.LogonCount}, {"BadPasswordCount", k.BadPasswordCount, li.BadPasswordCount},
		{"UserID", k.UserID, li.UserID}, {"PrimaryGroupID", k.PrimaryGroupID, li.PrimaryGroupID}, {"GroupCount", k.GroupCount, li.GroupCount},
		{"UserFlags", k.UserFlags, li.UserFlags}, {"UserSessionKey", usk, li.UserSessionKey}, {"Reserved1", k.Reserved1, li.Reserved1},
		{"UserAccountControl", k.UserAccountControl, li.UserAccountControl}, {"SubAuthStatus", k.SubAuthStatus, li.SubAuthStatus},
		{"FailedILogonCount", k.FailedILogonCount, li.FailedILogonCount}, {"Reserved3", k.Reserved3, li.Reserved3}, {"SIDCount", k.SIDCount, li.SIDCount},
		{"ResourceGroupCount", k.ResourceGroupCount, li.ResourceGroupCount},
		{"GroupIDs", gm(k.GroupIDs), append([]pacfmt.GroupMembership(nil), li.GroupIDs...)},
		{"ResourceGroupIDs", gm(k.ResourceGroupIDs), append([]pacfmt.GroupMembership(nil), li.ResourceGroupIDs...)},
	}
	cs = append(cs, str("EffectiveName", k.EffectiveName, li.EffectiveName)...)
	cs = append(cs, str("FullName", k.FullName, li.FullName)...)
	cs = append(cs, str("LogonScript", k.LogonScript, li.LogonScript)...)
	cs = append(cs, str("ProfilePath", k.ProfilePath, li.ProfilePath)...)
	cs = append(cs, str("HomeDirectory", k.HomeDirectory, li.HomeDirectory)...)
	cs = append(cs, str("HomeDirectoryDrive", k.HomeDirectoryDrive, li.HomeDirectoryDrive)...)
	cs = append(cs, str("LogonServer", k.LogonServer, li.LogonServer)...)
	cs = append(cs, str("LogonDomainName", k.LogonDomainName, li.LogonDomainName)...)
	g, w := sidStr(k.LogonDomainID, li.LogonDomainID)
	cs = append(cs, cmp{"LogonDomainID", g, w})
	g, w = sidStr(k.ResourceGroupDomainSID, li.ResourceGroupDomainSID)
	cs = append(cs, cmp{"ResourceGroupDomainSID", g, w})
	cs = append(cs, cmp{"len(ExtraSIDs)", len(k.ExtraSIDs), len(li.ExtraSIDs)})
	for i := 0; i < len(k.ExtraSIDs) && i < len(li.ExtraSIDs); i++ {
		g, w = sidStr(k.ExtraSIDs[i].SID, li.ExtraSIDs[i].SID)
		cs = append(cs, cmp{"ExtraSIDs.SID", g, w}, cmp{"ExtraSIDs.Attributes", k.ExtraSIDs[i].Attributes, li.ExtraSIDs[i].Attributes})
	}
	// client information
	ci, err := pacfmt.ParseClientInfo(data(pacfmt.TypeClientInfo))
	if err != nil {
		return "harness:reference-client-info", err.Error()
	}
	if t.ClientInfo == nil {
		return "attr:ClientInfo", "accepted without ClientInfo"
	}
	cs = append(cs, cmp{"ClientInfo.ClientID", ft(t.ClientInfo.ClientID), ci.ClientID}, cmp{"ClientInfo.NameLength", t.ClientInfo.NameLength, ci.NameLength},
		cmp{"ClientInfo.Name", t.ClientInfo.Name, ci.Name})
	// UPN_DNS_INFO, when present and well-formed
	if ub := data(pacfmt.TypeUPNDNSInfo); ub != nil {
		if u, err := pacfmt.ParseUPNDNSInfo(ub); err == nil {
			if t.UPNDNSInfo == nil {
				return "attr:UPNDNSInfo", "a well-formed UPN_DNS_INFO buffer is not reported"
			}
			cs = append(cs, cmp{"UPNDNSInfo.UPN", t.UPNDNSInfo.UPN, u.UPN}, cmp{"UPNDNSInfo.DNSDomain", t.UPNDNSInfo.DNSDomain, u.DNSDomain},
				cmp{"UPNDNSInfo.Flags", t.UPNDNSInfo.Flags, u.Flags})
		}
	} else if t.UPNDNSInfo != nil {
		return "attr:UPNDNSInfo", "UPNDNSInfo reported for a PAC without such a buffer"
	}
	// signature structures
	for _, s := range []struct {
		name string
		typ  uint32
		got  *pac.SignatureData
	}{{"ServerChecksum", pacfmt.TypeServerChecksum, t.ServerChecksum}, {"KDCChecksum", pacfmt.TypeKDCChecksum, t.KDCChecksum}} {
		sd := data(s.typ)
		if len(sd) >= 4 {
			// a buffer longer than its fields (check "slack"): type, Signature and, where there is room for it, the RODC identifier
			if n := pacfmt.SigLen(int32(binary.LittleEndian.Uint32(sd))); n > 0 && len(sd) > 4+n+2 {
				sd = sd[:4+n+2]
			} else if n > 0 && len(sd) == 4+n+1 {
				sd = sd[:4+n]
			}
		}
		rs, err := pacfmt.ParseSignature(sd)
		if err != nil {
			return "harness:reference-signature", err.Error()
		}
		if s.got == nil {
			return "attr:" + s.name, "accepted without " + s.name
		}
		rodc := uint16(0)
		if rs.RODC != nil {
			rodc = *rs.RODC
		}
		cs = append(cs, cmp{s.name + ".SignatureType", int32(s.got.SignatureType), rs.Type}, cmp{s.name + ".Signature", hex.EncodeToString(s.got.Signature), hex.EncodeToString(rs.Value)},
			cmp{s.name + ".RODCIdentifier", s.got.RODCIdentifier, rodc})
	}
	for _, c := range cs {
		if !reflect.DeepEqual(c.g, c.w) {
			if ws, ok := c.w.(string); ok && hasSupplementary(ws) {
				where := "logon-info"
				if strings.HasPrefix(c.f, "ClientInfo") {
					where = "client-info"
				} else if strings.HasPrefix(c.f, "UPNDNSInfo") {
					where = "upn-dns-info"
				}
				return "attr:utf16-surrogate-pair:" + where, fmt.Sprintf("%s reported as %q, the buffer encodes %q (UTF-16 surrogate pair)", c.f, c.g, c.w)
			}
			return "attr:" + c.f, fmt.Sprintf("%s reported as %v, the verified PAC encodes %v", c.f, c.g, c.w)
		}
	}
	// group SIDs: the set must be exactly the encoded one
	got, want := k.GetGroupMembershipSIDs(), li.GroupSIDs()
	gs, wsn := append([]string{}, got...), append([]string{}, want...)
	sort.Strings(gs)
	sort.Strings(wsn)
	gs, wsn = uniq(gs), uniq(wsn)
	if !reflect.DeepEqual(gs, wsn) {
		return "attr:GroupMembershipSIDs", fmt.Sprintf("GetGroupMembershipSIDs = %v, the verified PAC encodes %v", got, want)
	}
	return "", ""
}

func uniq(s []string) []string {
	out := s[:0]
	for i, v := range s {
		if i == 0 || v != s[i-1] {
			out = append(out, v)
		}
	}
	return out
}

// ---------------------------------------------------------------------------------------------
// Eval

// Eval judges one Case in this process.
func Eval(c Case) evid.Verdict {
	v, _ := evalOutcome(c)
	return v
}

// evalOutcome also returns the observed outcome class for the label histograms.
func evalOutcome(c Case) (evid.Verdict, string) {
	if c.Kind == "e2e" || c.Kind == "basic" {
		return evalE2E(c)
	}
	if c.Kind == "slack" {
		return evalSlack(c)
	}
	b, err := build(c)
	if err != nil {
		return evid.Fail("harness:build", "cannot build the case: %v", err), "harness"
	}
	return judge(c, b)
}

func judge(c Case, b *built) (evid.Verdict, string) {
	if r := refAccept(b.pac, b.key); r != b.constr {
		return evid.Fail("harness:oracle-disagreement", "reference verifier says accept=%v, construction says accept=%v (%s)", r, b.constr, b.why), "harness"
	}
	outcome, t, errText := observe(b.pac, b.key, b.etype)
	switch {
	case b.constr && outcome == "accept":
		if sig, msg := attrs(t, b.pac, b.entries); sig != "" {
			return evid.Fail(sig, "%s", msg), outcome
		}
	case b.constr && strings.HasPrefix(outcome, "panic:"):
		return evid.Fail(outcome, "correctly signed PAC (%d octets, server signature type %d) makes gokrb5 panic: %s", len(b.pac), c.SrvAlg, errText), outcome
	case b.constr:
		return evid.Fail("reject-valid:"+strings.TrimPrefix(outcome, "error:"), "correctly signed PAC with all mandatory buffers rejected: %s\npac=%x", errText, b.pac), outcome
	case outcome == "accept":
		return evid.Fail("accept-invalid:"+b.why, "PAC accepted although it must not be (%s)\npac=%x key=%x", b.why, b.pac, b.key), outcome
	}
	// the same octets handed to a PACType value that has already processed another (valid) PAC: refusing is fine, but
	// if they are accepted they must deserve it, and what is reported must be theirs, not the earlier PAC's
	if m, err := materials(); err == nil && !c.Captured {
		if o2, t2, e2 := observeReused(m.win2kRaw, m.win2kKey, 18, b.pac, b.key, b.etype); o2 == "accept" {
			if !b.constr {
				return evid.Fail("reused-pactype:accept-invalid:"+b.why, "PAC accepted by a PACType value that had processed another PAC before, although it must not be (%s)\npac=%x key=%x", b.why, b.pac, b.key), outcome
			}
			if sig, msg := attrs(t2, b.pac, b.entries); sig != "" {
				return evid.Fail("reused-pactype:"+sig, "a PACType value that had processed another PAC before accepts this PAC but reports: %s", msg), outcome
			}
		} else if strings.HasPrefix(o2, "panic:") {
			return evid.Fail("reused-pactype:"+o2, "a PACType value that had processed another PAC before panics on this one: %s", e2), outcome
		}
	}
	return evid.Pass(), outcome
}

// refAcceptLoose is refAccept without the strict size rule for signature buffers: the Signature field is the one the
// declared type says, whatever follows it in the buffer.
func refAcceptLoose(p []byte, key []byte) bool {
	pp, err := pacfmt.Parse(p)
	if err != nil || len(pacfmt.MissingMandatory(pp.Entries)) > 0 {
		return false
	}
	if _, err := pacfmt.ParseLogonInfo(pp.Data(pacfmt.First(pp.Entries, pacfmt.TypeLogonInfo))); err != nil {
		return false
	}
	if _, err := pacfmt.ParseClientInfo(pp.Data(pacfmt.First(pp.Entries, pacfmt.TypeClientInfo))); err != nil {
		return false
	}
	e := pp.Entries[pacfmt.First(pp.Entries, pacfmt.TypeServerChecksum)]
	if e.Size < 4 {
		return false
	}
	decl := int32(binary.LittleEndian.Uint32(p[e.Offset:]))
	sp, _ := pacfmt.ValueSpan(p, pp.Entries, pacfmt.TypeServerChecksum)
	if n := pacfmt.SigLen(decl); n == 0 || sp.Hi-sp.Lo != n {
		return false
	}
	want, err := ref.Checksum(decl, key, pacfmt.KeyUsage, pacfmt.SignedData(p, pp.Entries))
	return err == nil && bytes.Equal(want, p[sp.Lo:sp.Hi])
}

// evalSlack: a correctly signed PAC whose signature buffers declare more octets than their fields need (an encoder that
// rounds cbBufferSize up, or one stray octet). [MS-PAC] does not say that such a buffer must be refused, and the
// property does not either, so the verdict on the PAC itself is free. What the property does say is that every octet
// outside the two Signature fields is signed: if the PAC is accepted, it must be reported faithfully and must stop
// being accepted as soon as one bit of those further octets changes.
func evalSlack(c Case) (evid.Verdict, string) {
	if c.T.Kind != "none" && c.T.Kind != "" {
		return evid.Fail("harness:build", "the slack check takes untampered cases"), "harness"
	}
	b, err := build(c)
	if err != nil {
		return evid.Fail("harness:build", "cannot build the case: %v", err), "harness"
	}
	if !b.constr {
		return evid.Fail("harness:build", "the slack check takes presentations that are valid apart from the trailing octets (%s)", b.why), "harness"
	}
	if !refAcceptLoose(b.pac, b.key) {
		return evid.Fail("harness:oracle-disagreement", "the reference does not verify its own signature over a PAC with trailing octets in a signature buffer"), "harness"
	}
	outcome, t, errText := observe(b.pac, b.key, b.etype)
	if strings.HasPrefix(outcome, "panic:") {
		return evid.Fail(outcome, "PAC with trailing octets in a signature buffer makes gokrb5 panic: %s", errText), outcome
	}
	if outcome != "accept" {
		return evid.Pass(), "slack-refused"
	}
	if sig, msg := attrs(t, b.pac, b.entries); sig != "" {
		return evid.Fail(sig, "%s", msg), outcome
	}
	seen := map[uint32]bool{}
	for _, e := range b.entries {
		if (e.Type != pacfmt.TypeServerChecksum && e.Type != pacfmt.TypeKDCChecksum) || seen[e.Type] || e.Size < 4 {
			continue
		}
		seen[e.Type] = true
		n := pacfmt.SigLen(int32(binary.LittleEndian.Uint32(b.pac[e.Offset:])))
		for off := int(e.Offset) + 4 + n; off < int(e.Offset)+int(e.Size); off++ {
			for bit := 0; bit < 8; bit++ {
				p := append([]byte{}, b.pac...)
				p[off] ^= 1 << uint(bit)
				if refAcceptLoose(p, b.key) {
					return evid.Fail("harness:oracle-disagreement", "the reference still verifies after a flip of signed octet %d", off), "harness"
				}
				if o, _, _ := observe(p, b.key, b.etype); o == "accept" {
					return evid.Fail("accept-invalid:bit:"+region(b, off)+":trailing", "PAC accepted as presented and still accepted after bit %d of octet %d was flipped; the octet lies in the %s buffer behind the Signature field and is part of the signed data\npac=%x key=%x", bit, off, region(b, off), p, b.key), outcome
				}
			}
		}
	}
	return evid.Pass(), outcome
}

// observeReused processes a first PAC with one PACType value and then hands the second PAC to the same value.
func observeReused(p1, key1 []byte, et1 int32, p2, key2 []byte, et2 int32) (outcome string, pt *pac.PACType, errText string) {
	defer func() {
		if r := recover(); r != nil {
			outcome, pt = "panic:"+evid.PanicSite(string(debug.Stack())), nil
			errText = fmt.Sprint(r)
		}
	}()
	var t pac.PACType
	if err := t.Unmarshal(append([]byte{}, p1...)); err != nil {
		return "error:first-container", nil, err.Error()
	}
	if err := t.ProcessPACInfoBuffers(types.EncryptionKey{KeyType: et1, KeyValue: append([]byte{}, key1...)}, discard); err != nil {
		return "error:first", nil, err.Error()
	}
	if err := t.Unmarshal(append([]byte{}, p2...)); err != nil {
		return "error:container", nil, err.Error()
	}
	if err := t.ProcessPACInfoBuffers(types.EncryptionKey{KeyType: et2, KeyValue: append([]byte{}, key2...)}, discard); err != nil {
		return "error:" + errClass(err.Error()), nil, err.Error()
	}
	return "accept", &t, ""
}

// ---------------------------------------------------------------------------------------------

func caseKey(c Case) string { b, _ := json.Marshal(c); return string(b) }

func algName(a int32) string { return fmt.Sprintf("alg%d", a) }

// features derives histogram labels from a Case.
func features(c Case, b *built) []string {
	l := []string{"kind:" + c.Kind, "tamper:" + c.T.Kind}
	if c.Captured {
		return append(l, "layout:captured")
	}
	l = append(l, "srv:"+algName(c.SrvAlg), "kdc:"+algName(c.KDCAlg))
	count := map[uint32]int{}
	for _, e := range b.entries {
		count[e.Type]++
	}
	for _, t := range pacfmt.Mandatory {
		switch {
		case count[t] == 0:
			l = append(l, fmt.Sprintf("missing:%d", t))
		case count[t] > 1:
			l = append(l, fmt.Sprintf("duplicated:%d", t))
		}
	}
	opt := 0
	for t, n := range count {
		if t != 1 && t != 6 && t != 7 && t != 10 {
			opt += n
		}
	}
	l = append(l, fmt.Sprintf("optional-buffers:%d", min(opt, 4)))
	inOrder := true
	for i := 1; i < len(b.entries); i++ {
		if b.entries[i].Offset < b.entries[i-1].Offset {
			inOrder = false
		}
	}
	if !inOrder {
		l = append(l, "data-order:permuted")
	}
	for _, bf := range c.Bufs {
		switch {
		case bf.Src == "sig:server" && bf.RODC != nil:
			l = append(l, "rodc:server")
		case bf.Src == "sig:kdc" && bf.RODC != nil:
			l = append(l, "rodc:kdc")
		case bf.Src == "sig:server" && bf.Declared != nil:
			l = append(l, "declared:server")
		case bf.Src == "sig:kdc" && bf.Declared != nil:
			l = append(l, "declared:kdc")
		case bf.Src == "gen:logon":
			l = append(l, "logon:generated")
			if bf.Gen != nil && bf.Gen.NullEmpty {
				l = append(l, "logon:null-pointers-for-empty-strings")
			}
			if bf.Gen != nil && len(bf.Gen.Slack) > 0 {
				l = append(l, "logon:MaximumLength>Length")
			}
			if bf.Gen != nil && bf.Gen.FillGroups > 400 {
				l = append(l, "logon:over-4096-octets")
			}
		case strings.HasSuffix(bf.Src, ":logon"):
			l = append(l, "logon:"+bf.Src)
		}
		if len(bf.Patch) > 0 {
			l = append(l, "patched:"+bf.Patch[0].Field)
		}
	}
	if c.Fill != 0 {
		l = append(l, "padding:nonzero")
	}
	if b.constr {
		l = append(l, "expect:accept")
	} else {
		l = append(l, "expect:reject")
	}
	return l
}

func TestMain(m *testing.M) {
	if os.Getenv("C19_WORKER") == "1" {
		workerMain()
		os.Exit(0)
	}
	os.Exit(m.Run())
}

func workers() int {
	n := runtime.NumCPU()
	if n > 16 {
		n = 16
	}
	if n < 2 {
		n = 2
	}
	return n
}
