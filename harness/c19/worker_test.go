package c19

import (
	"bufio"
	"encoding/json"
	"fmt"
	"io"
	"os"
	"os/exec"
	"runtime/debug"
	"strconv"
	"strings"
	"sync"
	"syscall"

	"verif/harness/evid"
)

// Crash isolation for single-bit flips.
//
// gokrb5 decodes KERB_VALIDATION_INFO (and the other NDR buffers) before it looks at the
// signature, and github.com/jcmturner/rpc/v2/ndr hands a flipped conformance count straight to
// reflect.MakeSlice; PACType.ProcessPACInfoBuffers does make([]byte, cbBufferSize). A single
// flipped bit can therefore ask for tens of gigabytes, which ends the process with a fatal error
// no recover() can catch. Flips are evaluated in child processes (this test binary re-executed
// with C19_WORKER=1) whose address space is capped; a child that dies is restarted behind the
// killing bit, which is recorded as outcome "fatal" — like an error or a panic it means "not
// accepted", which is all C19 asks of a tampered PAC.

type flipReq struct {
	Case Case `json:"case"` // tamper ignored
	Lo   int  `json:"lo"`
	Hi   int  `json:"hi"`
}

// flipRes is one line of worker output: the judgement of one bit.
type flipRes struct {
	Bit     int          `json:"bit"`
	Outcome string       `json:"outcome"`
	V       evid.Verdict `json:"v"`
	Note    string       `json:"note,omitempty"` // parent side: first stderr lines of a worker that died
}

const workerBudget = 768 << 20 // address space a worker may add to what it has at start

func vmSize() uint64 {
	b, _ := os.ReadFile("/proc/self/statm")
	f := strings.Fields(string(b))
	if len(f) == 0 {
		return 0
	}
	p, _ := strconv.ParseUint(f[0], 10, 64)
	return p * uint64(os.Getpagesize())
}

// workerMain serves flip requests on stdin until EOF.
func workerMain() {
	lim := uint64(3 << 30) // when /proc is not readable: what a Go test binary maps at start is a little over 1 GiB
	if vm := vmSize(); vm > 0 {
		lim = vm + workerBudget
	}
	syscall.Setrlimit(syscall.RLIMIT_AS, &syscall.Rlimit{Cur: lim, Max: lim})
	debug.SetMemoryLimit(192 << 20)
	in := bufio.NewReaderSize(os.Stdin, 1<<20)
	for {
		line, err := in.ReadBytes('\n')
		if len(line) > 1 {
			var rq flipReq
			if json.Unmarshal(line, &rq) != nil {
				os.Exit(3)
			}
			serve(rq)
		}
		if err != nil {
			return
		}
	}
}

func serve(rq flipReq) {
	base := rq.Case
	base.T = Tamper{Kind: "none"}
	b0, err := build(base)
	for bit := rq.Lo; bit < rq.Hi; bit++ {
		res := flipRes{Bit: bit}
		if err != nil {
			res.V, res.Outcome = evid.Fail("harness:build", "cannot build the case: %v", err), "harness"
		} else {
			res.V, res.Outcome = judgeFlip(rq.Case, b0, bit)
		}
		out, _ := json.Marshal(res)
		// one unbuffered write per bit: whatever the parent has read was really evaluated, and the
		// first bit it has not read is the one that killed the worker
		os.Stdout.Write(append(out, '\n'))
	}
	os.Stdout.Write([]byte(".\n"))
}

// judgeFlip evaluates one flipped bit of an already built, untampered presentation.
func judgeFlip(c Case, b0 *built, bit int) (evid.Verdict, string) {
	if bit < 0 || bit >= 8*len(b0.pac) {
		return evid.Fail("harness:build", "bit %d outside the PAC", bit), "harness"
	}
	b := *b0
	b.pac = append([]byte{}, b0.pac...)
	b.pac[bit/8] ^= 1 << uint(bit%8)
	if !(b.hasKDC && b.kdcValue.Contains(bit/8)) {
		setWhy(&b, "bit:"+region(&b, bit/8))
	}
	c.T = Tamper{Kind: "bit", Bit: bit}
	return judge(c, &b)
}

// ---------------------------------------------------------------------------------------------
// parent side

type worker struct {
	cmd    *exec.Cmd
	in     io.WriteCloser
	out    *bufio.Reader
	stderr *tailBuf
}

type tailBuf struct {
	mu sync.Mutex
	b  []byte
}

func (t *tailBuf) Write(p []byte) (int, error) {
	t.mu.Lock()
	t.b = append(t.b, p...)
	if len(t.b) > 4096 {
		t.b = t.b[:4096] // the head of a Go fatal error names the cause
	}
	t.mu.Unlock()
	return len(p), nil
}

func (t *tailBuf) firstLines(n int) string {
	t.mu.Lock()
	defer t.mu.Unlock()
	ls := strings.SplitN(string(t.b), "\n", n+1)
	if len(ls) > n {
		ls = ls[:n]
	}
	return strings.Join(ls, " | ")
}

func startWorker() (*worker, error) {
	exe, err := os.Executable()
	if err != nil {
		return nil, err
	}
	cmd := exec.Command(exe, "-test.run=^$")
	cmd.Env = append(os.Environ(), "C19_WORKER=1", "VERIF_STATUS=", "VERIF_EVIDENCE=/dev/null", "GOTRACEBACK=single", "GOMAXPROCS=2")
	w := &worker{cmd: cmd, stderr: &tailBuf{}}
	cmd.Stderr = w.stderr
	if w.in, err = cmd.StdinPipe(); err != nil {
		return nil, err
	}
	op, err := cmd.StdoutPipe()
	if err != nil {
		return nil, err
	}
	w.out = bufio.NewReaderSize(op, 1<<16)
	if err := cmd.Start(); err != nil {
		return nil, err
	}
	return w, nil
}

func (w *worker) stop() {
	if w == nil {
		return
	}
	w.in.Close()
	w.cmd.Process.Kill()
	w.cmd.Wait()
}

// flipper runs ranges of bit flips of one Case in a private worker and reports every bit.
type flipper struct {
	w *worker
}

func (f *flipper) close() { f.w.stop(); f.w = nil }

// run evaluates bits [lo,hi). emit is called once per bit, in order. A worker death is retried
// once on the same bit (so that a death caused by garbage left by earlier bits is not blamed on an
// innocent one) and then reported as outcome "fatal".
func (f *flipper) run(c Case, lo, hi int, emit func(flipRes)) error {
	retried := -1
	for lo < hi {
		if f.w == nil {
			w, err := startWorker()
			if err != nil {
				return err
			}
			f.w = w
		}
		rq, _ := json.Marshal(flipReq{Case: c, Lo: lo, Hi: hi})
		if _, err := f.w.in.Write(append(rq, '\n')); err != nil {
			f.close()
			return fmt.Errorf("cannot talk to the flip worker: %v", err)
		}
		done := false
		for !done {
			line, err := f.w.out.ReadBytes('\n')
			if err != nil {
				break
			}
			if string(line) == ".\n" {
				done = true
				break
			}
			var res flipRes
			if json.Unmarshal(line, &res) != nil || res.Bit != lo {
				f.close()
				return fmt.Errorf("flip worker out of step at bit %d: %q", lo, line)
			}
			emit(res)
			lo++
		}
		if done {
			if lo != hi {
				return fmt.Errorf("flip worker ended its batch at bit %d of %d", lo, hi)
			}
			return nil
		}
		// the worker died while evaluating bit lo
		f.w.cmd.Wait()
		cause := f.w.stderr.firstLines(2)
		f.close()
		if retried != lo {
			retried = lo
			continue
		}
		fatal := flipRes{Bit: lo, Outcome: "fatal", V: evid.Pass()}
		base := c
		base.T = Tamper{Kind: "none"}
		if b, err := build(base); err == nil && b.hasKDC && b.kdcValue.Contains(lo/8) {
			// a bit the service cannot check must be accepted; a process death is not acceptance
			fatal.V = evid.Fail("fatal:valid-pac", "worker died twice on a PAC that must be accepted (bit %d): %s", lo, cause)
		}
		fatal.Outcome, fatal.Note = "fatal:"+fatalClass(cause), cause
		emit(fatal)
		lo++
	}
	return nil
}

func fatalClass(stderr string) string {
	switch {
	case strings.Contains(stderr, "out of memory"), strings.Contains(stderr, "cannot allocate"):
		return "out-of-memory"
	case strings.Contains(stderr, "stack overflow"), strings.Contains(stderr, "stack exceeds"):
		return "stack-overflow"
	case strings.Contains(stderr, "pthread_create failed"), strings.Contains(stderr, "failed to create new OS thread"):
		return "address-space-cap-hit-by-runtime" // the cap, not the allocation itself, ended the process: still memory pressure from the flipped bit
	case stderr == "":
		return "killed"
	}
	return "other"
}
