package c19

import (
	"encoding/base64"
	"encoding/binary"
	"encoding/hex"
	"fmt"
	"reflect"
	"sort"
	"strconv"
	"strings"
	"sync/atomic"
	"time"

	"pgregory.net/rapid"

	"github.com/jcmturner/gokrb5/v8/client"
	"github.com/jcmturner/gokrb5/v8/config"
	"github.com/jcmturner/gokrb5/v8/credentials"
	"github.com/jcmturner/gokrb5/v8/keytab"
	"github.com/jcmturner/gokrb5/v8/messages"
	"github.com/jcmturner/gokrb5/v8/service"

	"verif/harness/evid"
	"verif/harness/kgen"
	"verif/harness/mint"
	"verif/harness/ref/der"
	ref "verif/harness/ref/krbcrypto"
	"verif/harness/ref/pacfmt"
	"verif/harness/sim/kdc"
)

// End to end: the presentation of a Case travels as AD-WIN2K-PAC inside AD-IF-RELEVANT in the
// authorization-data of a service ticket (encoded with ref/der, sealed with ref/krbcrypto under
// the same long-term key that signs the PAC), inside a fresh AP-REQ. service.VerifyAPREQ must
// accept iff the PAC is acceptable, and the credentials.ADCredentials it attaches are compared
// with the reference decoding: these are "the account attributes exposed to the application".

const (
	e2eRealm = "C19.TEST"
	e2eKVNO  = 3
)

var e2eSeq atomic.Uint64

// keytabBytes writes an MIT keytab (format 0x0502) holding one key.
func keytabBytes(realm string, comps []string, etype int32, kvno int, key []byte) []byte {
	var e []byte
	u16 := func(v int) { e = append(e, byte(v>>8), byte(v)) }
	u32 := func(v uint32) { e = append(e, byte(v>>24), byte(v>>16), byte(v>>8), byte(v)) }
	counted := func(s []byte) { u16(len(s)); e = append(e, s...) }
	u16(len(comps))
	counted([]byte(realm))
	for _, c := range comps {
		counted([]byte(c))
	}
	u32(1)          // KRB_NT_PRINCIPAL
	u32(1500000000) // timestamp
	e = append(e, byte(kvno))
	u16(int(etype))
	counted(key)
	u32(uint32(kvno))
	out := []byte{5, 2, 0, 0, 0, 0}
	binary.BigEndian.PutUint32(out[2:], uint32(len(e)))
	return append(out, e...)
}

// mintAPReq builds the AP-REQ carrying pacBytes; ticket and PAC share the service key.
func mintAPReq(pacBytes, svcKey []byte, etype int32, user string, now time.Time, cusec int) ([]byte, error) {
	sess := ref.RandomKey(etype, kgen.DetBytes(uint64(cusec), "c19/e2e/session/"+user, 32))
	conf := func(l string) []byte {
		return kgen.DetBytes(uint64(cusec), "c19/e2e/conf/"+l+user, ref.ConfounderLen(etype))
	}
	inner, err := der.AuthData.Encode([]any{der.M{"ad-type": 128, "ad-data": pacBytes}})
	if err != nil {
		return nil, err
	}
	sec := now.UTC().Truncate(time.Second)
	etp, err := der.EncTicketPart.Encode(der.M{
		"flags": []byte{0x40, 0x80, 0, 0}, "key": der.M{"keytype": etype, "keyvalue": sess}, "crealm": e2eRealm, "cname": der.Name(1, user),
		"transited": der.M{"tr-type": 0, "contents": []byte{}}, "authtime": sec.Add(-time.Minute), "starttime": sec.Add(-time.Minute),
		"endtime": sec.Add(8 * time.Hour), "authorization-data": []any{der.M{"ad-type": 1, "ad-data": inner}}})
	if err != nil {
		return nil, err
	}
	tct, err := ref.Encrypt(etype, svcKey, 2, etp, conf("t"))
	if err != nil {
		return nil, err
	}
	auth, err := der.Authenticator.Encode(der.M{"authenticator-vno": 5, "crealm": e2eRealm, "cname": der.Name(1, user), "cusec": cusec, "ctime": sec})
	if err != nil {
		return nil, err
	}
	act, err := ref.Encrypt(etype, sess, 11, auth, conf("a"))
	if err != nil {
		return nil, err
	}
	return der.APReq.Encode(der.M{"pvno": 5, "msg-type": 14, "ap-options": []byte{0, 0, 0, 0},
		"ticket":        der.M{"tkt-vno": 5, "realm": e2eRealm, "sname": der.Name(2, "HTTP", "svc.c19.test"), "enc-part": der.M{"etype": etype, "kvno": e2eKVNO, "cipher": tct}},
		"authenticator": der.M{"etype": etype, "cipher": act}})
}

// checkADCreds compares the attributes handed to the application with the reference decoding of the verified PAC.
func checkADCreds(creds *credentials.Credentials, b *built) evid.Verdict {
	i := pacfmt.First(b.entries, pacfmt.TypeLogonInfo)
	li, err := pacfmt.ParseLogonInfo(b.pac[b.entries[i].Offset : b.entries[i].Offset+uint64(b.entries[i].Size)])
	if err != nil {
		return evid.Fail("harness:reference-logon-info", "%v", err)
	}
	ad := creds.GetADCredentials()
	type cmp struct {
		f    string
		g, w any
	}
	for _, x := range []cmp{
		{"EffectiveName", ad.EffectiveName, li.EffectiveName.String()}, {"FullName", ad.FullName, li.FullName.String()},
		{"UserID", uint32(ad.UserID), li.UserID}, {"PrimaryGroupID", uint32(ad.PrimaryGroupID), li.PrimaryGroupID},
		{"LogonDomainName", ad.LogonDomainName, li.LogonDomainName.String()}, {"LogonDomainID", ad.LogonDomainID, li.LogonDomainID.String()},
		{"LogonServer", ad.LogonServer, li.LogonServer.String()},
	} {
		if !reflect.DeepEqual(x.g, x.w) {
			if ws, ok := x.w.(string); ok && hasSupplementary(ws) {
				return evid.Fail("attr:utf16-surrogate-pair:logon-info", "ADCredentials.%s = %q, the verified PAC encodes %q", x.f, x.g, x.w)
			}
			return evid.Fail("e2e:attr:"+x.f, "ADCredentials.%s = %v, the verified PAC encodes %v", x.f, x.g, x.w)
		}
	}
	for _, x := range []struct {
		f string
		g time.Time
		w uint64
	}{{"LogOnTime", ad.LogOnTime, li.LogonTime}, {"LogOffTime", ad.LogOffTime, li.LogoffTime}, {"PasswordLastSet", ad.PasswordLastSet, li.PasswordLastSet}} {
		if want := pacfmt.FileTimeToTime(x.w); !x.g.Equal(want) {
			if y := want.Year(); y >= 1678 && y <= 2261 {
				// a value the conversion can hold: not the overflow of the dependency (known finding), the wrong attribute
				return evid.Fail("e2e:attr:"+x.f, "ADCredentials.%s = %s, the verified PAC encodes FILETIME %#x = %s", x.f, x.g.Format(time.RFC3339Nano), x.w, want.Format(time.RFC3339Nano))
			}
			return evid.Fail("e2e:attr:filetime-conversion", "ADCredentials.%s = %s, the verified PAC encodes FILETIME %#x = %s", x.f, x.g.Format(time.RFC3339Nano), x.w, want.Format(time.RFC3339Nano))
		}
	}
	gs, ws := append([]string{}, ad.GroupMembershipSIDs...), append([]string{}, li.GroupSIDs()...)
	sort.Strings(gs)
	sort.Strings(ws)
	if !reflect.DeepEqual(uniq(gs), uniq(ws)) {
		return evid.Fail("e2e:attr:GroupMembershipSIDs", "ADCredentials.GroupMembershipSIDs = %v, the verified PAC encodes %v", ad.GroupMembershipSIDs, li.GroupSIDs())
	}
	for _, s := range ws {
		if !creds.Authorized(s) {
			return evid.Fail("e2e:attr:Authorized", "credentials.Authorized(%q) is false for a group SID of the verified PAC", s)
		}
	}
	if li.EffectiveName.String() != "" && creds.UserName() != li.EffectiveName.String() {
		return evid.Fail("e2e:attr:UserName", "credentials.UserName() = %q, the verified PAC names %q", creds.UserName(), li.EffectiveName.String())
	}
	if li.FullName.String() != "" && creds.DisplayName() != li.FullName.String() {
		return evid.Fail("e2e:attr:DisplayName", "credentials.DisplayName() = %q, the verified PAC names %q", creds.DisplayName(), li.FullName.String())
	}
	return evid.Pass()
}

var etypeNames = map[int32]string{16: "des3-cbc-sha1-kd", 17: "aes128-cts-hmac-sha1-96", 18: "aes256-cts-hmac-sha1-96",
	19: "aes128-cts-hmac-sha256-128", 20: "aes256-cts-hmac-sha384-192", 23: "rc4-hmac"}

// evalBasic: the other route on which the library hands PAC attributes to an application: service.KRB5BasicAuthenticator
// logs the user in with the password from a Basic header, obtains a ticket for the service from the (simulated) KDC and
// verifies it like an AP-REQ. The KDC puts the Case's PAC, signed under the service's key, into that ticket.
func evalBasic(c Case) (evid.Verdict, string) {
	et := ref.ETypeForCksum(c.SrvAlg)
	w := kdc.NewWorld(e2eSeq.Add(1) + 77000)
	r := w.AddRealm("EXAMPLE.COM", kdc.Policy{ETypes: []int32{et}, TicketEType: et})
	r.AddClient("alice", "basic-auth-password", nil, 64)
	svc := r.AddService("HTTP/svc.c19.test")
	svcKey := r.Key(svc, et)
	cc := c
	cc.Kind, cc.SrvKey = "layout", hex.EncodeToString(svcKey.Value)
	b, err := build(cc)
	if err != nil {
		return evid.Fail("harness:build", "cannot build the case: %v", err), "harness"
	}
	if rr := refAccept(b.pac, b.key); rr != b.constr {
		return evid.Fail("harness:oracle-disagreement", "reference verifier says accept=%v, construction says accept=%v (%s)", rr, b.constr, b.why), "harness"
	}
	if c.T.Kind == "wrongkey" || c.T.Kind == "keybit" {
		// on this route the service's key is the simulated KDC's: "wrong key" means the PAC in the ticket was signed with the other one
		c2 := cc
		c2.T, c2.SrvKey = Tamper{Kind: "none"}, hex.EncodeToString(b.key)
		b2, err := build(c2)
		if err != nil {
			return evid.Fail("harness:build", "cannot build the case: %v", err), "harness"
		}
		b2.constr, b2.why = false, "wrong-key"
		b = b2
	}
	r.Mutate = func(x *kdc.ReplyCtx) {
		if x.Kind == "TGS" && x.Ticket.SName == "HTTP/svc.c19.test" {
			x.Ticket.AuthData = append(x.Ticket.AuthData, mint.PACAuthData(b.pac))
		}
	}
	ip := kdc.UniqueIP()
	srv := kdc.NewServer(r, ip, 8893, kdc.Refuses, kdc.Answers, "k")
	if err := srv.Start(); err != nil {
		return evid.Fail("harness:listen", "%v", err), "harness"
	}
	defer srv.Stop()
	lim := 1
	cfg, err := config.NewFromString(kdc.ConfText(kdc.ConfOpts{DefaultRealm: "EXAMPLE.COM", ETypes: etypeNames[et], NoAddresses: true, UDPPrefLimit: &lim, Extra: "  allow_weak_crypto = true\n"},
		map[string][]string{"EXAMPLE.COM": {ip + ":8893"}}))
	if err != nil {
		return evid.Fail("harness:config", "%v", err), "harness"
	}
	kt := keytab.New()
	if err := kt.Unmarshal(keytabBytes("EXAMPLE.COM", []string{"HTTP", "svc.c19.test"}, et, svc.KVNO, svcKey.Value)); err != nil {
		return evid.Fail("harness:mint", "keytab: %v", err), "harness"
	}
	outcome := ""
	v := evid.SafeEval(func() evid.Verdict {
		hv := basicB64("alice@EXAMPLE.COM:basic-auth-password")
		a := service.NewKRB5BasicAuthenticator(hv, cfg, service.NewSettings(kt, service.Logger(discard), service.SName("HTTP/svc.c19.test")), client.NewSettings(client.DisablePAFXFAST(true)))
		id, ok, err := a.Authenticate()
		switch {
		case ok && err == nil:
			outcome = "accept"
		default:
			outcome = "error:" + errClass(fmt.Sprint(err))
		}
		switch {
		case b.constr && !ok:
			if !strings.Contains(fmt.Sprint(err), "PAC") && !strings.Contains(fmt.Sprint(err), "hecksum") {
				return evid.Fail("harness:mint", "the basic authenticator failed for a reason unrelated to the PAC: %v", err)
			}
			return evid.Fail("basic:reject-valid:"+errClass(fmt.Sprint(err)), "basic authentication refused although the service ticket carries a correctly signed PAC: %v", err)
		case !b.constr && ok:
			return evid.Fail("basic:accept-invalid:"+b.why, "basic authentication succeeded although the PAC of the service ticket must not be accepted (%s)", b.why)
		case !b.constr:
			return evid.Pass()
		}
		creds, isC := id.(*credentials.Credentials)
		if !isC {
			return evid.Fail("harness:identity", "identity of type %T", id)
		}
		vv := checkADCreds(creds, b)
		if !vv.OK && !strings.HasPrefix(vv.Sig, "harness:") && vv.Sig != "e2e:attr:filetime-conversion" && !strings.HasPrefix(vv.Sig, "attr:utf16-surrogate-pair") {
			// (the two conversions that go wrong inside the dependency keep their signature on this route too: one root cause)
			vv.Sig = "basic:" + strings.TrimPrefix(vv.Sig, "e2e:")
			vv.Msg = "through service.KRB5BasicAuthenticator: " + vv.Msg
		}
		return vv
	})
	if !v.OK && outcome == "" {
		outcome = "panic"
	}
	return v, outcome
}

func evalE2E(c Case) (evid.Verdict, string) {
	if c.Kind == "basic" {
		return evalBasic(c)
	}
	cc := c
	cc.Kind = "layout"
	b, err := build(cc)
	if err != nil {
		return evid.Fail("harness:build", "cannot build the case: %v", err), "harness"
	}
	if r := refAccept(b.pac, b.key); r != b.constr {
		return evid.Fail("harness:oracle-disagreement", "reference verifier says accept=%v, construction says accept=%v (%s)", r, b.constr, b.why), "harness"
	}
	// the ticket is sealed with the service's real key; a "wrong key" tamper means the PAC was signed with another one
	svcKey := b.key
	n := e2eSeq.Add(1)
	user := fmt.Sprintf("u%d", n) // a fresh client per case keeps the process-wide replay cache out of the verdict
	raw, err := mintAPReq(b.pac, svcKey, b.etype, user, time.Now(), int(n%1000000))
	if err != nil {
		return evid.Fail("harness:mint", "cannot mint the AP-REQ: %v", err), "harness"
	}
	kt := keytab.New()
	if err := kt.Unmarshal(keytabBytes(e2eRealm, []string{"HTTP", "svc.c19.test"}, b.etype, e2eKVNO, svcKey)); err != nil {
		return evid.Fail("harness:mint", "keytab: %v", err), "harness"
	}
	var v evid.Verdict
	outcome := ""
	v = evid.SafeEval(func() evid.Verdict {
		var ap messages.APReq
		if err := ap.Unmarshal(raw); err != nil {
			return evid.Fail("harness:mint", "gokrb5 cannot decode the minted AP-REQ: %v", err)
		}
		ok, creds, err := service.VerifyAPREQ(&ap, service.NewSettings(kt, service.Logger(discard)))
		switch {
		case ok && err == nil:
			outcome = "accept"
		default:
			outcome = "error:" + errClass(fmt.Sprint(err))
		}
		switch {
		case b.constr && !ok:
			if !strings.Contains(fmt.Sprint(err), "PAC") && !strings.Contains(fmt.Sprint(err), "hecksum") {
				return evid.Fail("harness:mint", "VerifyAPREQ refused the minted AP-REQ for a reason unrelated to the PAC: %v", err)
			}
			return evid.Fail("e2e:reject-valid:"+errClass(fmt.Sprint(err)), "AP-REQ whose ticket carries a correctly signed PAC refused: %v", err)
		case !b.constr && ok:
			return evid.Fail("e2e:accept-invalid:"+b.why, "AP-REQ accepted although its PAC must not be (%s); ADCredentials=%+v", b.why, creds.GetADCredentials())
		case !b.constr:
			return evid.Pass()
		}
		return checkADCreds(creds, b)
	})
	if !v.OK && outcome == "" {
		outcome = "panic"
	}
	return v, outcome
}

func basicB64(s string) string { return base64.StdEncoding.EncodeToString([]byte(s)) }

func e2eChecks(r *evid.Run, record recordFn) {
	r.Rule("e2e (enumerated): the presentation inside AD-IF-RELEVANT/AD-WIN2K-PAC of a service ticket minted with ref/der + ref/krbcrypto (etype of the signature type, same long-term key), offered to service.VerifyAPREQ in a fresh AP-REQ: three bases x five checksum types x {valid, FILETIMEs inside 1678-2262 only, server signature zeroed / random / bit flipped, signed with another key, client info removed, KDC signature removed}; on acceptance credentials.ADCredentials (names, ids, group SIDs, LogOnTime / LogOffTime / PasswordLastSet as time.Time), Authorized() and UserName() are compared with the reference decoding")
	type job struct {
		base string
		alg  int32
		mode string
	}
	var jobs []job
	for _, base := range []string{"win2k", "ms", "trust"} {
		for _, alg := range pacfmt.SigTypes {
			for _, m := range []string{"valid", "valid-times-in-range", "sig-zero", "sig-random", "sig-bit", "wrongkey", "no-client-info", "no-kdc-sig"} {
				jobs = append(jobs, job{base, alg, m})
			}
		}
	}
	// a PAC the service cannot even read as a container: every bit of cBuffers and Version, a bit of each table field, cuts
	// inside the header and the table (the ticket still says "here is a PAC", so the request must fail)
	for k := 0; k < 64; k++ {
		jobs = append(jobs, job{"win2k", pacfmt.SigTypes[k%len(pacfmt.SigTypes)], fmt.Sprintf("bit:%d", k)})
	}
	for k := 0; k < 5*16; k++ {
		jobs = append(jobs, job{"win2k", pacfmt.SigTypes[k%len(pacfmt.SigTypes)], fmt.Sprintf("bit:%d", 64+8*k+(k*5)%8)})
	}
	for k, n := range []int{0, 1, 4, 7, 8, 9, 23, 24, 25, 40, 87, 88, 89} {
		jobs = append(jobs, job{[]string{"win2k", "ms", "trust"}[k%3], pacfmt.SigTypes[k%len(pacfmt.SigTypes)], fmt.Sprintf("cut:%d", n)})
	}
	evid.Parallel(len(jobs), workers(), func(ji int) {
		j := jobs[ji]
		lbl := fmt.Sprintf("c19/e2e/%s/%d", j.base, j.alg)
		kalg := pacfmt.SigTypes[ji%len(pacfmt.SigTypes)]
		sk, kk := seededKeys(r.Seed(), lbl, j.alg, kalg)
		c := Case{Kind: "e2e", Bufs: append([]Buf{}, enumBases[j.base]...), SrvAlg: j.alg, KDCAlg: kalg, SrvKey: sk, KDCKey: kk, T: Tamper{Kind: "none"}}
		var arg int
		if m, a, ok := strings.Cut(j.mode, ":"); ok {
			j.mode = m
			arg, _ = strconv.Atoi(a)
		}
		switch j.mode {
		case "bit":
			c.T = Tamper{Kind: "bit", Bit: arg}
		case "cut":
			c.T = Tamper{Kind: "cut", Bit: arg}
		case "valid-times-in-range":
			// every FILETIME the application sees is set to a value time.Time's nanosecond constructors can hold
			c.Bufs[0].Patch = []Patch{{Field: "LogoffTime", Value: 140000000000000000}, {Field: "PasswordLastSet", Value: 131000000000000000}}
		case "sig-zero", "sig-random":
			c.T = Tamper{Kind: j.mode, Bit: 7 + ji}
		case "sig-bit":
			b, err := build(c)
			if err != nil {
				return
			}
			sp, _ := pacfmt.ValueSpan(b.pac, b.entries, pacfmt.TypeServerChecksum)
			c.T = Tamper{Kind: "bit", Bit: 8*sp.Lo + ji%(8*(sp.Hi-sp.Lo))}
		case "wrongkey":
			c.T = Tamper{Kind: "wrongkey", Key: hex.EncodeToString(ref.RandomKey(ref.ETypeForCksum(j.alg), kgen.DetBytes(r.Seed(), lbl+"/wrong", 32)))}
		case "no-client-info":
			c.Bufs = append([]Buf{c.Bufs[0]}, c.Bufs[2:]...)
		case "no-kdc-sig":
			c.Bufs = c.Bufs[:len(c.Bufs)-1]
		}
		v, outcome := evalE2E(c)
		cc := c
		cc.Kind = "layout"
		b, _ := build(cc)
		record("e2e", c, v, outcome, b, nil)
	})
	r.Rule("basic (enumerated + rapid): the same through the library's other route to ADCredentials, service.KRB5BasicAuthenticator: a simulated KDC logs the user in, issues the service ticket and puts the Case's PAC (signed under the service's key) into it; three bases x checksum types x {valid, logon-info FILETIMEs patched to distinct in-range values, signature zeroed, signed with another key}, and drawn valid presentations with generated logon info")
	type bjob struct {
		base string
		alg  int32
		mode string
	}
	var bjobs []bjob
	for _, base := range []string{"win2k", "ms", "trust"} {
		for _, alg := range pacfmt.SigTypes {
			for _, m := range []string{"valid", "times-distinct", "sig-zero", "wrongkey"} {
				bjobs = append(bjobs, bjob{base, alg, m})
			}
		}
	}
	evid.Parallel(len(bjobs), workers(), func(ji int) {
		j := bjobs[ji]
		kalg := pacfmt.SigTypes[ji%len(pacfmt.SigTypes)]
		_, kk := seededKeys(r.Seed(), fmt.Sprintf("c19/basic/%s/%d", j.base, j.alg), j.alg, kalg)
		c := Case{Kind: "basic", Bufs: append([]Buf{}, enumBases[j.base]...), SrvAlg: j.alg, KDCAlg: kalg, KDCKey: kk, T: Tamper{Kind: "none"}}
		switch j.mode {
		case "times-distinct":
			// every FILETIME of the logon information a different value inside what time.Time can hold
			c.Bufs[0].Patch = []Patch{{Field: "LogonTime", Value: 131000000000000000}, {Field: "LogoffTime", Value: 140000000000000000}, {Field: "KickOffTime", Value: 141000000000000000},
				{Field: "PasswordLastSet", Value: 130000000000000000}, {Field: "PasswordCanChange", Value: 130500000000000000}, {Field: "PasswordMustChange", Value: 142000000000000000}}
		case "sig-zero":
			c.T = Tamper{Kind: "sig-zero"}
		case "wrongkey":
			c.T = Tamper{Kind: "wrongkey", Key: hex.EncodeToString(ref.RandomKey(ref.ETypeForCksum(j.alg), kgen.DetBytes(r.Seed(), fmt.Sprintf("c19/basic/wrong/%d", ji), 32)))}
		}
		v, outcome := evalE2E(c)
		record("e2e", c, v, outcome, nil, nil)
	})
	r.Rapid("e2e-gen", r.N(60, 600), func(t *rapid.T) {
		c := genValid(t, "basic", true)
		c = genTamper(t, c, false)
		v, outcome := evalE2E(c)
		record("e2e-gen", c, v, outcome, nil, t)
	})
	r.Rule("e2e-gen (rapid): a drawn valid presentation (any base incl. logon info built from drawn values: names, ids, SIDs with 1-15 sub-authorities and 48-bit authorities, FILETIMEs over the whole range) with or without one signature-level tamper, through VerifyAPREQ as above")
	r.Rapid("e2e-gen", r.N(300, 3000), func(t *rapid.T) {
		c := genValid(t, "e2e", true)
		c = genTamper(t, c, false)
		if c.T.Kind == "none" && rapid.IntRange(0, 3).Draw(t, "container-damage") == 0 {
			// the container itself: a bit of the header or the buffer table, or a cut (in this process: the flips that make
			// the NDR decoder ask for gigabytes lie in the buffers and are left to the crash-isolated flip workers)
			if b0, err := build(Case{Kind: "layout", Bufs: c.Bufs, DataOrder: c.DataOrder, Gap: c.Gap, Fill: c.Fill, Tail: c.Tail, SrvAlg: c.SrvAlg, SrvKey: c.SrvKey, KDCAlg: c.KDCAlg, KDCKey: c.KDCKey, T: Tamper{Kind: "none"}}); err == nil {
				h := pacfmt.HeaderLen(len(b0.entries))
				if rapid.Bool().Draw(t, "cut") {
					c.T = Tamper{Kind: "cut", Bit: rapid.IntRange(0, min(h+8, len(b0.pac)-1)).Draw(t, "cut-at")}
				} else {
					c.T = Tamper{Kind: "bit", Bit: rapid.IntRange(0, 8*h-1).Draw(t, "header-bit")}
				}
			}
		}
		cc := c
		cc.Kind = "layout"
		b, err := build(cc)
		if err != nil {
			r.Count("", "generator-discard")
			return
		}
		v, outcome := evalE2E(c)
		record("e2e-gen", c, v, outcome, b, t)
	})
}
