// Package evid is the shared run-time of every property check: it owns the
// judgement of a case (violation / known finding / pass), failure capture for
// rapid-driven and enumerated searches, replay, and the evidence file.
package evid

import (
	"bufio"
	"encoding/json"
	"flag"
	"fmt"
	"hash/fnv"
	"os"
	"path/filepath"
	"runtime/debug"
	"sort"
	"strconv"
	"strings"
	"sync"
	"testing"
	"time"

	"pgregory.net/rapid"
)

// Verdict is the result of evaluating one case.
type Verdict struct {
	OK  bool   `json:"ok"`
	Sig string `json:"sig,omitempty"` // root-cause signature, matched against KNOWN_FINDINGS.txt
	Msg string `json:"msg,omitempty"`
}

// Pass is the verdict of a case on which the property held.
func Pass() Verdict { return Verdict{OK: true} }

// Fail builds a violation verdict with a root-cause signature.
func Fail(sig, format string, args ...any) Verdict {
	return Verdict{OK: false, Sig: sig, Msg: fmt.Sprintf(format, args...)}
}

// Inconclusive marks harness trouble (self-test failure, timing straddle); never a violation.
type Inconclusive struct{ Msg string }

type replayFile struct {
	Property string          `json:"property"`
	Check    string          `json:"check"`
	Sig      string          `json:"sig"`
	Msg      string          `json:"msg"`
	Case     json.RawMessage `json:"case"`
}

type known struct {
	desc    string
	printed bool
	hits    int
}

// Run accumulates one check invocation.
type Run struct {
	T     *testing.T
	ID    string
	Level string
	tier  string
	seed  uint64
	start time.Time

	mu           sync.Mutex
	evals        int64
	distinct     map[uint64]struct{}
	labels       map[string]int64
	samples      []any
	sampleKeys   map[string]bool
	rule         []string
	assumptions  []string
	exhaustive   map[string]bool
	extra        map[string]any
	known        map[string]*known
	violations   int
	violSigs     map[string]bool
	inconclusive []string
	lastFail     map[string]*replayFile // per check: last failing case seen (rapid: the shrunk one)
	replays      map[string]func(json.RawMessage) Verdict
	replayMode   bool
}

var verifDir = envOr("VERIF_DIR", "/verif")

func envOr(k, d string) string {
	if v := os.Getenv(k); v != "" {
		return v
	}
	return d
}

// Start begins a run for a property. level is the evidence level.
func Start(t *testing.T, id, level string) *Run {
	r := &Run{T: t, ID: id, Level: level, tier: envOr("VERIF_TIER", "quick"), start: time.Now(),
		distinct: map[uint64]struct{}{}, labels: map[string]int64{}, sampleKeys: map[string]bool{},
		exhaustive: map[string]bool{}, extra: map[string]any{}, known: map[string]*known{},
		violSigs: map[string]bool{}, lastFail: map[string]*replayFile{},
		replays: map[string]func(json.RawMessage) Verdict{}}
	s, _ := strconv.ParseUint(envOr("VERIF_SEED", "1"), 10, 64)
	if s == 0 {
		s = 0x5eed5eed // rapid treats 0 as "random"; remap
	}
	r.seed = s
	r.loadKnown()
	r.replayMode = os.Getenv("VERIF_REPLAY") != ""
	return r
}

func (r *Run) loadKnown() {
	f, err := os.Open(filepath.Join(verifDir, "KNOWN_FINDINGS.txt"))
	if err != nil {
		return
	}
	defer f.Close()
	sc := bufio.NewScanner(f)
	sc.Buffer(make([]byte, 1<<20), 1<<20)
	for sc.Scan() {
		line := strings.TrimSpace(sc.Text())
		if !strings.HasPrefix(line, "known:") {
			continue // "fixed:" lines and comments suppress nothing
		}
		fs := strings.Fields(strings.TrimPrefix(line, "known:"))
		if len(fs) < 2 || fs[0] != "property="+r.ID || !strings.HasPrefix(fs[1], "key=") {
			continue
		}
		r.known[strings.TrimPrefix(fs[1], "key=")] = &known{desc: strings.Join(fs[2:], " ")}
	}
}

func (r *Run) Tier() string     { return r.tier }
func (r *Run) Quick() bool      { return r.tier != "thorough" }
func (r *Run) Thorough() bool   { return r.tier == "thorough" }
func (r *Run) Seed() uint64     { return r.seed }
func (r *Run) ReplayMode() bool { return r.replayMode }

// N picks a case count by tier.
func (r *Run) N(quick, thorough int) int {
	if r.Thorough() {
		return thorough
	}
	return quick
}

// Rule appends a description of a generator and its non-triviality rule.
func (r *Run) Rule(s string) { r.mu.Lock(); r.rule = append(r.rule, s); r.mu.Unlock() }

// Assume records an assumption / trusted component.
func (r *Run) Assume(s string) { r.mu.Lock(); r.assumptions = append(r.assumptions, s); r.mu.Unlock() }

// Exhaustive marks a named finite sub-space as completely enumerated in this run.
func (r *Run) Exhaustive(space string) { r.mu.Lock(); r.exhaustive[space] = true; r.mu.Unlock() }

// Extra stores an extra coverage key.
func (r *Run) Extra(k string, v any) { r.mu.Lock(); r.extra[k] = v; r.mu.Unlock() }

// Count records one evaluated case. ntKey is "" for a trivial case, otherwise the
// canonical key by which non-trivial cases are distinct. labels feed histograms.
func (r *Run) Count(ntKey string, labels ...string) {
	r.mu.Lock()
	r.evals++
	if ntKey != "" {
		h := fnv.New64a()
		h.Write([]byte(ntKey))
		r.distinct[h.Sum64()] = struct{}{}
	}
	for _, l := range labels {
		r.labels[l]++
	}
	r.mu.Unlock()
}

// Label increments a histogram bucket without counting an evaluation.
func (r *Run) Label(l string) { r.mu.Lock(); r.labels[l]++; r.mu.Unlock() }

// Sample keeps at most one sample per class (and at most 24 overall).
func (r *Run) Sample(class string, c any) {
	r.mu.Lock()
	defer r.mu.Unlock()
	if r.sampleKeys[class] || len(r.samples) >= 24 {
		return
	}
	r.sampleKeys[class] = true
	b, err := json.Marshal(c)
	if err != nil {
		return
	}
	if len(b) > 1500 {
		r.samples = append(r.samples, map[string]any{"class": class, "case_truncated": string(b[:1500])})
		return
	}
	r.samples = append(r.samples, map[string]any{"class": class, "case": json.RawMessage(b)})
}

// Inconclusive records harness trouble; the run ends with exit 2 unless a violation was found.
func (r *Run) Inconclusive(format string, args ...any) {
	r.mu.Lock()
	r.inconclusive = append(r.inconclusive, fmt.Sprintf(format, args...))
	r.mu.Unlock()
}

// Judge classifies a verdict. It returns true when the case is an unlisted violation
// (the caller should then fail the rapid property so that it shrinks).
func (r *Run) Judge(check string, c any, v Verdict) bool {
	if v.OK {
		return false
	}
	if v.Sig == "harness" || strings.HasPrefix(v.Sig, "harness:") {
		// trouble inside the harness itself (a listener that cannot bind, a reference that cannot encode):
		// never a verdict on gokrb5
		r.Inconclusive("harness error in check %q: %s", check, firstLines(v.Msg, 3))
		return false
	}
	r.mu.Lock()
	defer r.mu.Unlock()
	if k, ok := r.known[v.Sig]; ok {
		k.hits++
		if !k.printed {
			k.printed = true
			fmt.Printf("KNOWN-FINDING: property=%s %s\n", r.ID, k.desc)
		}
		r.labels["known-finding:"+v.Sig]++
		return false
	}
	b, _ := json.Marshal(c)
	r.lastFail[check] = &replayFile{Property: r.ID, Check: check, Sig: v.Sig, Msg: v.Msg, Case: b}
	return true
}

// Violation records a violation found by a non-rapid (enumerated) search: the replay file is
// written at once. At most one replay per (check, signature) is kept.
func (r *Run) Violation(check string, c any, v Verdict) {
	if !r.Judge(check, c, v) {
		return
	}
	r.flushFail(check)
}

func (r *Run) flushFail(check string) {
	r.mu.Lock()
	rf := r.lastFail[check]
	delete(r.lastFail, check)
	if rf == nil {
		r.mu.Unlock()
		return
	}
	key := check + "|" + rf.Sig
	if r.violSigs[key] {
		r.violations++
		r.mu.Unlock()
		return
	}
	r.violSigs[key] = true
	r.violations++
	r.mu.Unlock()
	dir := filepath.Join(verifDir, "replays", r.ID)
	if d := os.Getenv("VERIF_REPLAY_DIR"); d != "" {
		dir = filepath.Join(d, r.ID)
	}
	os.MkdirAll(dir, 0o755)
	b, _ := json.MarshalIndent(rf, "", " ")
	h := fnv.New64a()
	h.Write(b)
	path := filepath.Join(dir, fmt.Sprintf("%s-%016x.json", sanitize(check), h.Sum64()))
	os.WriteFile(path, b, 0o644)
	fmt.Printf("VIOLATION property=%s replay=%s\n", r.ID, path)
	fmt.Printf("  check=%s sig=%s\n  %s\n", check, rf.Sig, firstLines(rf.Msg, 12))
}

func firstLines(s string, n int) string {
	ls := strings.Split(s, "\n")
	if len(ls) > n {
		ls = append(ls[:n], "...")
	}
	return strings.Join(ls, "\n  ")
}

func sanitize(s string) string {
	return strings.Map(func(c rune) rune {
		if c >= 'a' && c <= 'z' || c >= 'A' && c <= 'Z' || c >= '0' && c <= '9' || c == '-' || c == '_' {
			return c
		}
		return '_'
	}, s)
}

// Register installs the replay evaluator of a check: decode the Case and Eval it.
func (r *Run) Register(check string, f func(json.RawMessage) Verdict) { r.replays[check] = f }

// Reg is a typed helper for Register.
func Reg[C any](r *Run, check string, eval func(C) Verdict) {
	r.Register(check, func(raw json.RawMessage) Verdict {
		var c C
		if err := json.Unmarshal(raw, &c); err != nil {
			return Fail("replay-decode", "cannot decode case: %v", err)
		}
		return eval(c)
	})
}

// Replay runs the registered evaluator on $VERIF_REPLAY; returns true if replay mode handled the run.
func (r *Run) Replay() bool {
	if !r.replayMode {
		return false
	}
	path := os.Getenv("VERIF_REPLAY")
	b, err := os.ReadFile(path)
	if err != nil {
		r.Inconclusive("cannot read replay file: %v", err)
		r.finishStatus()
		return true
	}
	var rf replayFile
	if err := json.Unmarshal(b, &rf); err != nil {
		r.Inconclusive("cannot parse replay file: %v", err)
		r.finishStatus()
		return true
	}
	f := r.replays[rf.Check]
	if f == nil {
		r.Inconclusive("no evaluator registered for check %q", rf.Check)
		r.finishStatus()
		return true
	}
	v := SafeEval(func() Verdict { return f(rf.Case) })
	if v.OK {
		fmt.Printf("REPLAY property=%s check=%s: property holds on this case\n", r.ID, rf.Check)
	} else if k, ok := r.known[v.Sig]; ok {
		fmt.Printf("KNOWN-FINDING: property=%s %s\n", r.ID, k.desc)
	} else {
		fmt.Printf("VIOLATION property=%s replay=%s\n  check=%s sig=%s\n  %s\n", r.ID, path, rf.Check, v.Sig, firstLines(v.Msg, 30))
		r.violations++
	}
	r.finishStatus()
	return true
}

// Regress re-evaluates every saved case under regress/<ID>/ (shrunk reproducers of defects that
// were fixed or seeded): the seconds-long replay tier that runs before any generated search.
func (r *Run) Regress() {
	files, _ := filepath.Glob(filepath.Join(verifDir, "regress", r.ID, "*.json"))
	sort.Strings(files)
	for _, path := range files {
		if os.Getenv("VERIF_SKIP_SEEDED_REGRESS") != "" && strings.HasPrefix(filepath.Base(path), "seeded-") {
			continue // measuring what the generators find on their own
		}
		b, err := os.ReadFile(path)
		if err != nil {
			continue
		}
		var rf replayFile
		if json.Unmarshal(b, &rf) != nil {
			continue
		}
		f := r.replays[rf.Check]
		if f == nil {
			r.Inconclusive("regression file %s names unknown check %q", path, rf.Check)
			continue
		}
		v := SafeEval(func() Verdict { return f(rf.Case) })
		r.mu.Lock()
		r.evals++
		r.labels["regression-replays"]++
		r.mu.Unlock()
		if v.OK {
			continue
		}
		if v.Sig == "harness" || strings.HasPrefix(v.Sig, "harness:") {
			r.Inconclusive("harness error while replaying %s: %s", path, firstLines(v.Msg, 3))
			continue
		}
		r.mu.Lock()
		k, isKnown := r.known[v.Sig]
		if isKnown {
			k.hits++
			if !k.printed {
				k.printed = true
				fmt.Printf("KNOWN-FINDING: property=%s %s\n", r.ID, k.desc)
			}
			r.mu.Unlock()
			continue
		}
		r.violations++
		r.mu.Unlock()
		fmt.Printf("VIOLATION property=%s replay=%s\n  check=%s sig=%s (saved regression case)\n  %s\n", r.ID, path, rf.Check, v.Sig, firstLines(v.Msg, 12))
	}
}

// SafeEval converts a panic escaping an evaluator into a violation verdict with a stack-derived signature.
func SafeEval(f func() Verdict) (v Verdict) {
	defer func() {
		if p := recover(); p != nil {
			st := string(debug.Stack())
			v = Fail("panic:"+PanicSite(st), "panic: %v\n%s", p, st)
		}
	}()
	return f()
}

// PanicSite extracts the innermost gokrb5 (or dependency) function from a stack dump.
func PanicSite(stack string) string {
	lines := strings.Split(stack, "\n")
	seenPanic := false
	for _, l := range lines {
		if strings.HasPrefix(l, "panic(") {
			seenPanic = true
			continue
		}
		if !seenPanic || strings.HasPrefix(l, "\t") || strings.HasPrefix(l, "runtime.") {
			continue
		}
		if strings.Contains(l, "github.com/jcmturner/") || strings.Contains(l, "encoding/asn1") {
			if i := strings.LastIndex(l, "("); i > 0 {
				l = l[:i]
			}
			l = strings.TrimPrefix(l, "github.com/jcmturner/gokrb5/v8/")
			return l
		}
	}
	return "unknown"
}

var flagMu sync.Mutex

// Rapid runs prop as a rapid property with n cases in a subtest. On failure the shrunk Case last
// handed to Judge under this check name becomes the replay file.
func (r *Run) Rapid(check string, n int, prop func(*rapid.T)) {
	if n <= 0 {
		return
	}
	flagMu.Lock()
	defer flagMu.Unlock()
	flag.Set("rapid.checks", strconv.Itoa(n))
	flag.Set("rapid.seed", strconv.FormatUint(r.seed, 10))
	flag.Set("rapid.nofailfile", "true")
	if r.Quick() {
		flag.Set("rapid.shrinktime", "20s")
	} else {
		flag.Set("rapid.shrinktime", "45s")
	}
	ok := r.T.Run(check, func(t *testing.T) {
		rapid.Check(t, prop)
	})
	if !ok {
		r.mu.Lock()
		have := r.lastFail[check] != nil
		r.mu.Unlock()
		if have {
			r.flushFail(check)
		} else {
			// rapid failed without our Judge having seen a failing case: generator trouble or a
			// panic inside the harness. Not a verdict on the property.
			r.Inconclusive("rapid check %q failed without a judged case (harness error; see test log)", check)
		}
	}
}

// Finish writes the evidence file and the status file the driver maps to an exit code.
func (r *Run) Finish() {
	r.mu.Lock()
	// flush failures recorded by enumerations that never called Violation
	pend := []string{}
	for k := range r.lastFail {
		pend = append(pend, k)
	}
	r.mu.Unlock()
	sort.Strings(pend)
	for _, k := range pend {
		r.flushFail(k)
	}
	r.writeEvidence()
	r.finishStatus()
}

func (r *Run) writeEvidence() {
	r.mu.Lock()
	defer r.mu.Unlock()
	cov := map[string]any{
		"evaluations":         r.evals,
		"distinct_nontrivial": len(r.distinct),
		"rule":                strings.Join(r.rule, " || "),
		"samples":             r.samples,
		"labels":              r.labels,
	}
	if len(r.exhaustive) > 0 {
		sp := []string{}
		for k := range r.exhaustive {
			sp = append(sp, k)
		}
		sort.Strings(sp)
		cov["exhaustive"] = true
		cov["exhaustive_subspaces"] = sp
	}
	kf := map[string]int{}
	for sig, k := range r.known {
		if k.hits > 0 {
			kf[sig] = k.hits
		}
	}
	if len(kf) > 0 {
		cov["known_findings_excluded"] = kf
	}
	for k, v := range r.extra {
		cov[k] = v
	}
	if len(r.inconclusive) > 0 {
		cov["inconclusive"] = r.inconclusive
	}
	if r.samples == nil {
		cov["samples"] = []any{}
	}
	ev := map[string]any{
		"property_id": r.ID,
		"tier":        r.tier,
		"seed":        int64(r.seed),
		"level":       r.Level,
		"coverage":    cov,
		"assumptions": r.assumptions,
		"wall_s":      time.Since(r.start).Seconds(),
		"violations":  r.violations,
	}
	if r.assumptions == nil {
		ev["assumptions"] = []string{}
	}
	path := envOr("VERIF_EVIDENCE", filepath.Join(verifDir, "evidence", r.ID+".json"))
	os.MkdirAll(filepath.Dir(path), 0o755)
	b, _ := json.MarshalIndent(ev, "", " ")
	os.WriteFile(path, append(b, '\n'), 0o644)
}

func (r *Run) finishStatus() {
	st := "ok"
	switch {
	case r.violations > 0:
		st = "violation"
	case len(r.inconclusive) > 0:
		st = "inconclusive"
		for _, m := range r.inconclusive {
			fmt.Printf("INCONCLUSIVE property=%s %s\n", r.ID, m)
		}
	}
	if p := os.Getenv("VERIF_STATUS"); p != "" {
		os.WriteFile(p, []byte(st+"\n"), 0o644)
	}
	if st == "violation" {
		r.T.Fail()
	}
}

// Parallel runs f over 0..n-1 on up to w goroutines.
func Parallel(n, w int, f func(i int)) {
	if w < 1 {
		w = 1
	}
	var wg sync.WaitGroup
	ch := make(chan int, w)
	for k := 0; k < w; k++ {
		wg.Add(1)
		go func() {
			defer wg.Done()
			for i := range ch {
				f(i)
			}
		}()
	}
	for i := 0; i < n; i++ {
		ch <- i
	}
	close(ch)
	wg.Wait()
}

// Pool collects cases that held when evaluated one at a time, for a second pass that evaluates them side by side:
// state shared inside the library under test (a buffer, a table, a memo keyed too coarsely) shows as a wrong value or a
// panic only when calls overlap.
type Pool[C any] struct {
	mu    sync.Mutex
	cases []C
	check []string
	Max   int // 0 = 20000
}

// Add keeps a case (and the check it belongs to) for the concurrent pass.
func (p *Pool[C]) Add(check string, c C) {
	p.mu.Lock()
	defer p.mu.Unlock()
	max := p.Max
	if max == 0 {
		max = 20000
	}
	if len(p.cases) < max {
		p.cases = append(p.cases, c)
		p.check = append(p.check, check)
	}
}

// Concurrent re-evaluates the pooled cases w at a time; a failure is reported under the case's own check with the
// signature prefixed by "concurrent:".
func Concurrent[C any](r *Run, p *Pool[C], w int, eval func(C) Verdict) {
	p.mu.Lock()
	cases, checks := p.cases, p.check
	p.mu.Unlock()
	r.Rule(fmt.Sprintf("concurrent: %d of the cases above re-evaluated %d at a time (each held when run alone)", len(cases), w))
	Parallel(len(cases), w, func(i int) {
		v := SafeEval(func() Verdict { return eval(cases[i]) })
		if !v.OK && v.Sig != "harness" && !strings.HasPrefix(v.Sig, "harness:") {
			v.Sig = "concurrent:" + v.Sig
			v.Msg = fmt.Sprintf("while %d cases were evaluated at once (the same case held when run alone): %s", w, v.Msg)
		}
		r.Label("concurrent-re-evaluations")
		r.Violation(checks[i], cases[i], v)
	})
}
